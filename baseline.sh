#!/bin/sh
# runs the repository's own 78-test suite with the verification guard OFF (there are no hooks in /repo, so this is the plain build)
set -e
export OMPI_ALLOW_RUN_AS_ROOT=1 OMPI_ALLOW_RUN_AS_ROOT_CONFIRM=1 OMPI_MCA_rmaps_base_oversubscribe=1
mkdir -p /verif/out; cd /repo
[ -f _build/build.ninja ] || cmake -G Ninja -B _build -DCMAKE_BUILD_TYPE=RelWithDebInfo -DCMAKE_CXX_FLAGS=-Wno-error >/dev/null
cmake --build _build >/verif/out/baseline_build.log 2>&1 || { grep -E 'error|FAILED' /verif/out/baseline_build.log | head -20; echo 'BASELINE BUILD FAILED'; exit 1; }
ctest --test-dir _build -j8 --timeout 900 "$@"
