// compile-level probe: the syev adaptor header (malformed #include lines and an undeclared core::syev on the pinned tree)
#include <boost/multi/array.hpp>
#include <boost/multi/adaptors/lapack/syev.hpp>
int main() { boost::multi::array<double, 2> A({2, 2}, 1.0); boost::multi::array<double, 1> W(boost::multi::extensions_t<1>{2}); boost::multi::lapack::syev(boost::multi::lapack::filling::upper, A, W); return 0; }
