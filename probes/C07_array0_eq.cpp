// compile-level probe: equality of two 0-dimensional arrays (ambiguous overload on the pinned tree)
#include <boost/multi/array.hpp>
int main() { boost::multi::array<int, 0> A(3), B(4); return (A == B) || (A != B); }
