// compile-level probe: assigning the element_moved() view of a fancy-pointer array to an array_ref over the same pointer family.  array_ref<T, D, move_ptr<T, P>>::data_elements() const
// returns element_const_ptr (P rebound to T const) from a move_ptr<T, P>: for raw pointers that is one user-defined plus one standard conversion, for a class-type pointer P it
// needs two user-defined conversions and does not compile.  (The same program over raw pointers -- define RAW -- compiles and runs.)
#include <boost/multi/array.hpp>
#include <cstddef>
#include <iterator>
#include <memory>
namespace multi = boost::multi;
template<class T> class fptr {  // minimal random-access fancy pointer
	T* p_ = nullptr;
	template<class> friend class fptr;
 public:
	using difference_type = std::ptrdiff_t; using value_type = std::remove_cv_t<T>; using pointer = fptr; using reference = std::add_lvalue_reference_t<T>; using iterator_category = std::random_access_iterator_tag; using element_type = T;
	template<class U> using rebind = fptr<U>;
	fptr() = default; fptr(std::nullptr_t) {}  // NOLINT
	explicit fptr(T* p) : p_(p) {}
	template<class U, std::enable_if_t<std::is_convertible_v<U*, T*> && !std::is_same_v<U, T>, int> = 0> fptr(fptr<U> const& o) : p_(o.p_) {}  // NOLINT T -> T const
	std::add_lvalue_reference_t<T> operator*() const { return *p_; } T* operator->() const { return p_; } std::add_lvalue_reference_t<T> operator[](difference_type n) const { return p_[n]; }
	fptr& operator++() { ++p_; return *this; } fptr& operator--() { --p_; return *this; } fptr operator++(int) { auto t = *this; ++p_; return t; } fptr operator--(int) { auto t = *this; --p_; return t; }
	fptr& operator+=(difference_type n) { p_ += n; return *this; } fptr& operator-=(difference_type n) { p_ -= n; return *this; }
	friend fptr operator+(fptr a, difference_type n) { return a += n; } friend fptr operator+(difference_type n, fptr a) { return a += n; } friend fptr operator-(fptr a, difference_type n) { return a -= n; }
	friend difference_type operator-(fptr const& a, fptr const& b) { return a.p_ - b.p_; }
	friend bool operator==(fptr const& a, fptr const& b) { return a.p_ == b.p_; } friend bool operator!=(fptr const& a, fptr const& b) { return a.p_ != b.p_; }
	friend bool operator<(fptr const& a, fptr const& b) { return a.p_ < b.p_; } friend bool operator>(fptr const& a, fptr const& b) { return b < a; } friend bool operator<=(fptr const& a, fptr const& b) { return !(b < a); } friend bool operator>=(fptr const& a, fptr const& b) { return !(a < b); }
	explicit operator bool() const { return p_ != nullptr; }
	template<class U = T> static fptr pointer_to(U& r) { return fptr(std::addressof(r)); }
	T* raw() const { return p_; }
};
template<class T> struct falloc {
	using value_type = T; using pointer = fptr<T>;
	falloc() = default; template<class U> falloc(falloc<U> const&) {}  // NOLINT
	pointer allocate(std::size_t n) { return pointer(std::allocator<T>{}.allocate(n)); }
	void deallocate(pointer p, std::size_t n) { std::allocator<T>{}.deallocate(p.raw(), n); }
	friend bool operator==(falloc const&, falloc const&) { return true; } friend bool operator!=(falloc const&, falloc const&) { return false; }
};
int main() {
#ifdef RAW
	multi::array<int, 1> src({3}, 5); multi::array<int, 1> dst({3}, 0);
	multi::array_ref<int, 1> ref(dst.extensions(), dst.data_elements());
#else
	multi::array<int, 1, falloc<int>> src({3}, 5); multi::array<int, 1, falloc<int>> dst({3}, 0);
	multi::array_ref<int, 1, fptr<int>> ref(dst.extensions(), dst.data_elements());
#endif
	ref = src.element_moved();
	return dst[1] == 5 ? 0 : 1;
}
