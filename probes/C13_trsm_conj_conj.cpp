// compile-level probe (fixed defect 73e80c1): trsm with both operands conjugated
#include <boost/multi/adaptors/blas.hpp>
#include <boost/multi/array.hpp>
#include <complex>
int main() {
	namespace multi = boost::multi; namespace blas = multi::blas; using C = std::complex<double>;
	multi::array<C, 2> a = {{C{1, 0}, C{0, 0}}, {C{2, 1}, C{1, 0}}}; multi::array<C, 2> b = {{C{1, 2}, C{3, -1}}, {C{0, 1}, C{2, 2}}};
	blas::trsm(blas::side::left, blas::filling::lower, C{1, 0}, blas::H(a), blas::H(b));
	return 0;
}
