// compile-level probe (fixed defect 11dbbba): default and copy construction of a zero-dimensional array in an assertion-enabled build
#include <boost/multi/array.hpp>
int main() { boost::multi::array<int, 0> a; a = 5; boost::multi::array<int, 0> b(a); return static_cast<int>(b) == 5 ? 0 : 1; }
