#!/usr/bin/env python3
"""selftest/sweep_seed.py <seed-dir>... : for each seeded change, (1) confirm it in a scratch worktree (demo passes pristine, fails patched, 78-test suite passes patched),
(2) apply it to /repo, run the quick check of its property (and of the properties listed in meta.json 'also_try'), undo it straight afterwards,
(3) record what was run and what happened in the seed's meta.json under 'verif'.  Developer tool, not a registered check."""
import json, os, subprocess, sys, time, re
V = os.path.dirname(os.path.dirname(os.path.abspath(__file__)))  # the tree this script lives in

FLAGS = {"C13": ("", "-lopenblas"), "C14": ("", "-llapack -lopenblas"), "C15": ("", "-lfftw3"), "C17": ("", "-lboost_serialization"),
         "C18": ("-I/usr/lib/x86_64-linux-gnu/openmpi/include -I/usr/lib/x86_64-linux-gnu/openmpi/include/openmpi", "-L/usr/lib/x86_64-linux-gnu/openmpi/lib -lmpi")}

def sh(cmd, env=None):
    e = dict(os.environ); e.update(env or {})
    p = subprocess.run(cmd, shell=True, stdout=subprocess.PIPE, stderr=subprocess.STDOUT, text=True, env=e)
    return p.returncode, p.stdout

TRY_ONLY = '--try-only' in sys.argv
CONFIRM_ONLY = '--confirm-only' in sys.argv  # parallelisable: set VP_CONFIRM_WT to a private scratch worktree
for sd in [a for a in sys.argv[1:] if not a.startswith('--')]:
    sd = os.path.abspath(sd)
    mp = os.path.join(sd, "meta.json")
    meta = json.load(open(mp))
    prop = meta["property"]
    v = meta.get("verif", {})
    flags = v.get("demo_flags", FLAGS.get(prop, ("", ""))[0]); libs = v.get("demo_libs", FLAGS.get(prop, ("", ""))[1])
    def ok(line): return bool(line) and "demo_pristine_exit=0" in line[-1] and "suite_passes_with_patch=1" in line[-1] and not re.search(r"demo_patched_exit=0\b", line[-1])
    line = None
    for attempt in ([] if TRY_ONLY else ([flags] if "demo_flags" in v else [flags, (flags + " -DNDEBUG").strip()])):
        rc, out = sh(f"{V}/selftest/confirm_seed.sh {sd} {attempt}", {"LIBS_DEMO": libs})
        line = [l for l in out.splitlines() if l.startswith("RESULT")]
        flags = attempt
        if ok(line): break
    if not TRY_ONLY:
      v["confirm_cmd"] = f"LIBS_DEMO='{libs}' selftest/confirm_seed.sh {os.path.relpath(sd, V)} {flags}".strip()
      v["confirm_result"] = line[-1] if line else out[-300:]
      v["confirmed"] = ok(line)
    runs = []
    for pid in ([] if CONFIRM_ONLY else [prop] + meta.get("also_try", [])):
        rc, out = sh(f"{V}/selftest/try_seed.sh {pid} {sd}")
        keys = sorted(set(re.findall(r"^FAIL key=(\S+)", out, re.M)))
        cases = re.findall(r"^case: (.*)$", out, re.M)[:2]
        m = re.search(r"check exit=(\d+)", out)
        runs.append(dict(check=f"./check {pid} --tier quick", tree=("/repo (git apply, check, git checkout -- .)" if not os.environ.get("VP_TRY_REPO") else "scratch worktree of /repo HEAD with the patch applied (VP_REPO)"), exit=int(m.group(1)) if m else None, violation="VIOLATION" in out, keys=keys, first_cases=cases))
    if not CONFIRM_ONLY:
        v["check_runs"] = runs
        v["caught"] = any(r["violation"] and r["exit"] == 1 for r in runs)
    v["date"] = time.strftime("%Y-%m-%d")
    meta["verif"] = v
    json.dump(meta, open(mp, "w"), indent=1)
    print(os.path.basename(sd), "confirmed=%s caught=%s" % (v.get("confirmed"), v.get("caught")), [(r["check"].split()[1], r["keys"][:2]) for r in runs], flush=True)
