#!/usr/bin/env python3
"""selftest/merge_sweep.py <copy-of-verif> : copies the 'verif' records (check_runs, caught, date) that a sweep run from a private copy of /verif left in
<copy>/seeded/*/meta.json into this tree's seeded/*/meta.json, keeping everything else (also_try, notes, confirmation).  Developer tool."""
import glob, json, os, re, sys
V = os.path.dirname(os.path.dirname(os.path.abspath(__file__)))
src = sys.argv[1]
for mp in sorted(glob.glob(os.path.join(src, "seeded", "*", "meta.json"))):
    name = os.path.basename(os.path.dirname(mp))
    dst = os.path.join(V, "seeded", name, "meta.json")
    if not os.path.exists(dst):
        continue
    a = json.load(open(mp)).get("verif", {}); d = json.load(open(dst)); v = d.setdefault("verif", {})
    for k in ("confirm_cmd", "confirm_result", "confirmed"):
        if k in a and k not in v:
            v[k] = a[k]
    if "check_runs" not in a:
        json.dump(d, open(dst, "w"), indent=1)
        continue
    runs = []
    for r in a["check_runs"]:
        m = re.search(r"\./check (\S+) --tier quick", r["check"])
        r = dict(r)
        if r["check"].startswith("VP_REPO="):
            r["tree"] = "scratch worktree of /repo HEAD with the patch applied (VP_REPO)"
        else:
            r.setdefault("tree", "/repo (git apply, check, git checkout -- .)")
        r["check"] = "./check %s --tier quick" % m.group(1)
        runs.append(r)
    if v.get("date") and a.get("date") and v.get("check_runs") and v.get("sweep_commit") == a.get("sweep_commit") and v["check_runs"] == runs:
        continue
    v["check_runs"] = runs; v["caught"] = a.get("caught"); v["date"] = a.get("date")
    json.dump(d, open(dst, "w"), indent=1)
    print(name, "caught=%s" % v["caught"])
