#!/bin/bash
# selftest/try_seed.sh <PROPERTY-ID> <seed-dir> [tier]   -- applies the seeded patch to /repo, runs the check, and undoes it straight afterwards
ID=$1; SD=$(realpath "$2"); TIER=${3:-quick}
cd /verif
git -C /repo diff --quiet || { echo "/repo is dirty"; exit 2; }
git -C /repo apply $SD/patch.diff || { echo "patch does not apply"; exit 2; }
trap 'git -C /repo checkout -- .' EXIT
./check $ID --tier $TIER > /tmp/vp_try_$ID.log 2>&1; RC=$?
grep -E "^case:|^FAIL|VIOLATION|KNOWN-FINDING|^OK|INFRASTRUCTURE" /tmp/vp_try_$ID.log | head -8
echo "check exit=$RC"
