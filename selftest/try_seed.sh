#!/bin/bash
# selftest/try_seed.sh <PROPERTY-ID> <seed-dir> [tier]   -- applies the seeded patch to /repo, runs the check, and undoes it straight afterwards.
# With VP_TRY_REPO=<scratch worktree of /repo's HEAD> the patch is applied there instead and the check rebuilds from that tree (VP_REPO): several seeds can then be
# tried side by side (one lane per worktree, different properties per lane).
ID=$1; SD=$(realpath "$2"); TIER=${3:-quick}
R=${VP_TRY_REPO:-/repo}
V=$(dirname "$(dirname "$(realpath "$0")")")   # the tree this script lives in (normally /verif; a private copy while a long sweep runs)
cd "$V"
[ "$R" = /repo ] || { [ -d "$R" ] || git -C /repo worktree add -f --detach "$R" HEAD >/dev/null 2>&1; git -C "$R" checkout -q --detach "$(git -C /repo rev-parse HEAD)"; }
git -C $R diff --quiet || { echo "$R is dirty"; exit 2; }
git -C $R apply $SD/patch.diff || { echo "patch does not apply"; exit 2; }
trap 'git -C $R checkout -- .' EXIT
LOG=/tmp/vp_try_${ID}_$(basename $R).log
if [ "$R" = /repo ]; then ./check $ID --tier $TIER > $LOG 2>&1; RC=$?; else VP_REPO=$R ./check $ID --tier $TIER > $LOG 2>&1; RC=$?; fi
grep -E "^case:|^FAIL|VIOLATION|KNOWN-FINDING|^OK|INFRASTRUCTURE" $LOG | head -8
echo "check exit=$RC"
