#!/usr/bin/env python3
"""selftest/revert_fix_sweep.py [PID ...] : for every `fixed:` line of known_findings.txt, revert that commit in a scratch worktree of /repo's HEAD
(outside /repo and /verif), run the property's quick check against it (VP_REPO), and expect a VIOLATION; the shrunk failing input is copied to
corpus/<PID>/ as a regression input (replayed first by every run).  Writes selftest/REVERT_RESULTS.md.  Developer tool, not a registered check."""
import os, re, shutil, subprocess, sys, time
V = os.path.dirname(os.path.dirname(os.path.abspath(__file__)))
WT = "/tmp/vp_revert_wt"
def sh(cmd, **kw):
    return subprocess.run(cmd, shell=True, stdout=subprocess.PIPE, stderr=subprocess.STDOUT, text=True, **kw)
only = set(sys.argv[1:])
if not os.path.isdir(WT):
    sh("git -C /repo worktree add -f --detach %s HEAD" % WT)
rows = []
for line in open(os.path.join(V, "known_findings.txt")):
    m = re.match(r"fixed:\s+property=(\S+)\s+([0-9a-f]{7,})\s+(.*)", line.strip())
    if not m:
        continue
    pid, commit, text = m.groups()
    if only and pid not in only and commit not in only:
        continue
    sh("git -C %s checkout -q --detach $(git -C /repo rev-parse HEAD) && git -C %s reset -q --hard" % (WT, WT))
    r = sh("git -C %s revert -n --no-edit %s" % (WT, commit))
    how = ""
    if r.returncode != 0:
        sh("git -C %s revert --abort; git -C %s reset -q --hard" % (WT, WT))
        r = sh("git -C %s revert -n --no-edit -X theirs %s" % (WT, commit))  # conflicting hunks: take the pre-fix text
        how = " [conflicting hunks resolved to the pre-fix text]"
    if r.returncode != 0:
        sh("git -C %s revert --abort; git -C %s reset -q --hard" % (WT, WT))
        rows.append((pid, commit, "revert conflicts with later commits (not tried)", "", text)); print(rows[-1][:3], flush=True)
        continue
    env = dict(os.environ); env["VP_REPO"] = WT
    o = sh("cd %s && ./check %s --tier quick" % (V, pid), env=env).stdout
    sh("git -C %s reset -q --hard" % WT)
    viol = re.findall(r"VIOLATION property=\S+ replay=(\S+)", o)
    keys = sorted(set(re.findall(r"^FAIL key=(\S+)", o, re.M)))
    saved = ""
    if viol:
        src = viol[0]
        base = os.path.basename(src)
        tgt, ext = base.split("@")[0], os.path.splitext(base)[1]
        dst = os.path.join(V, "corpus", pid, "%s@fixed-%s%s" % (tgt, commit, ext))
        os.makedirs(os.path.dirname(dst), exist_ok=True)
        if not os.path.exists(dst):
            shutil.copy(src, dst)
            if os.path.exists(os.path.splitext(src)[0] + ".txt"):
                shutil.copy(os.path.splitext(src)[0] + ".txt", os.path.splitext(dst)[0] + ".txt")
        saved = os.path.relpath(dst, V)
    status = "reported (%s)" % "; ".join(k[:70] for k in keys[:3]) if viol else ("NOT reported" if "OK property" in o else "check did not run: " + o[-200:].replace("\n", " "))
    rows.append((pid, commit, status + how, saved, text)); print(rows[-1][:4], flush=True)
with open(os.path.join(V, "selftest", "REVERT_RESULTS.md"), "a") as f:
    f.write("\n## run of %s (%s)\n\n| property | fix commit reverted | quick check on the reverted tree | regression input saved | defect |\n|---|---|---|---|---|\n" % (time.strftime("%Y-%m-%d %H:%M"), " ".join(sorted(only)) or "all"))
    for r in rows:
        f.write("| %s | %s | %s | %s | %s |\n" % (r[0], r[1], r[2], r[3], r[4][:200].replace("|", "/")))
sh("git -C /repo worktree remove --force %s" % WT)
