#!/usr/bin/env python3
"""selftest/mk_results.py : writes seeded/RESULTS.md from the 'verif' records that selftest/sweep_seed.py left in each seeded/<ID>-<n>/meta.json"""
import glob, json, os
V = os.path.dirname(os.path.dirname(os.path.abspath(__file__)))
rows = []
for mp in sorted(glob.glob(os.path.join(V, "seeded", "*", "meta.json"))):
    d = json.load(open(mp)); v = d.get("verif", {})
    name = os.path.basename(os.path.dirname(mp))
    runs = v.get("check_runs", [])
    caught_by = ", ".join("%s (%s)" % (r["check"].split()[1], "; ".join(k[:60] for k in r["keys"][:2])) for r in runs if r.get("violation"))
    missed_by = ", ".join(r["check"].split()[1] for r in runs if not r.get("violation"))
    rows.append((name, d["summary"].replace("|", "/").replace("\n", " ")[:230], "yes" if v.get("confirmed") else "no (see note)", caught_by or "-", missed_by or "-", v.get("note", "")[:400].replace("|", "/"), v.get("date", "")))
with open(os.path.join(V, "seeded", "RESULTS.md"), "w") as f:
    f.write("# Seeded changes and the checks that report them\n\nProduced by `selftest/mk_results.py` from the records of `selftest/sweep_seed.py` (confirmation in a scratch worktree: demo passes without / fails with the change, "
            "78-test suite passes with it; then `git -C /repo apply`, quick check, `git -C /repo checkout -- .` -- or, for re-sweeps of older seeds run side by side, the same in a scratch worktree of /repo's HEAD that the check rebuilds from (VP_REPO); each meta.json says which).\n\n")
    f.write("| seed | change (summary, truncated) | confirmed (demo + suite) | reported by | not reported by | note | date |\n|---|---|---|---|---|---|---|\n")
    for r in rows:
        f.write("| " + " | ".join(r) + " |\n")
    f.write("\n%d seeded changes, %d reported by at least one check.\n" % (len(rows), sum(1 for r in rows if r[3] != "-")))
print(open(os.path.join(V, "seeded", "RESULTS.md")).read()[-200:])
