#!/bin/bash
# selftest/confirm_seed.sh <seed-dir> [compile-flags...]
# Confirms a seeded change in a scratch worktree of /repo's HEAD: (1) the demo passes without the change, (2) the change applies,
# (3) the repository's 78 tests still pass with it, (4) the demo fails with it.  Prints one summary line.  (developer tool, not a registered check)
set -u
SD=$(realpath "$1"); shift
EXTRA="$*"
WT=${VP_CONFIRM_WT:-/tmp/vp_confirm_wt}
TG=$(basename $WT)
export OMPI_ALLOW_RUN_AS_ROOT=1 OMPI_ALLOW_RUN_AS_ROOT_CONFIRM=1 OMPI_MCA_rmaps_base_oversubscribe=1
if [ ! -d $WT ]; then git -C /repo worktree add -f --detach $WT HEAD >/dev/null 2>&1; fi
git -C $WT checkout -q --detach $(git -C /repo rev-parse HEAD) && git -C $WT checkout -q -- . 
CXX="g++ -std=c++17 -I$WT/include $EXTRA"
$CXX $SD/demo.cpp -o /tmp/${TG}_demo0 $LIBS_DEMO >/tmp/${TG}_demo0.log 2>&1 || { echo "RESULT demo-does-not-compile-pristine"; tail -5 /tmp/${TG}_demo0.log; exit 1; }
timeout 120 /tmp/${TG}_demo0 >/dev/null 2>&1; R0=$?
git -C $WT apply $SD/patch.diff || { echo "RESULT patch-does-not-apply"; exit 1; }
$CXX $SD/demo.cpp -o /tmp/${TG}_demo1 $LIBS_DEMO >/tmp/${TG}_demo1.log 2>&1; C1=$?
if [ $C1 = 0 ]; then timeout 120 /tmp/${TG}_demo1 >/dev/null 2>&1; R1=$?; else R1=compile-error; fi
( cd $WT && { [ -f _build/build.ninja ] || cmake -G Ninja -B _build -DCMAKE_BUILD_TYPE=RelWithDebInfo -DCMAKE_CXX_FLAGS=-Wno-error >/dev/null; } && cmake --build _build -j${VP_CONFIRM_J:-16} 2>&1 | tail -2 >/tmp/${TG}_build.log; ctest --test-dir _build -j${VP_CONFIRM_J:-8} --timeout 900 2>&1 | tail -4 > /tmp/${TG}_ctest.log )
T=$(grep -c "100% tests passed, 0 tests failed out of 78" /tmp/${TG}_ctest.log)
git -C $WT checkout -q -- .
echo "RESULT demo_pristine_exit=$R0 demo_patched_exit=$R1 suite_passes_with_patch=$T"
