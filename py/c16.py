#!/usr/bin/env python3
"""C16 — const-ness propagates: generated access paths with a compile-time oracle.

The quantifier of C16 is over *programs* (access paths), so the generated inputs are C++ expressions.  A small type-level model of the
library's interface (kind of object, dimensionality, expected constness) says which steps are applicable and whether the end of the path
must be read-only; the oracle is the compiler: every path is instantiated on its root type and vp/c16_probe.hpp follows every observer of
the resulting object down to element references.  Phase 2 asks, for every distinct type at the end of a read-only path, whether real
statements (assignment from an array / from a view, swap, fill) build and link.

 * bounded-exhaustive generation up to a depth (quick: 2, thorough: 3) + seeded random deeper paths (VERIF_SEED), batched into translation units;
 * a failing path is shrunk by deleting steps while the model still accepts it and the failure persists; the replay file is the path text;
 * known findings are listed in known_findings.txt by the minimal path pattern; matching paths are excluded from generation by construction and counted.
"""
import hashlib, itertools, json, os, random, re, shutil, subprocess, sys, time
from concurrent.futures import ThreadPoolExecutor

PID = "C16"

# --------------------------------------------------------------------------------------------------------------- model
# state = (kind, D, const, cat, owning)   kind: A array/view, IT iterator, ER elements range, EIT elements iterator, CUR cursor, EL element
#                                         cat: 'l' named lvalue, 'p' temporary
MAXD = 4

ROOTS = {  # name -> (type text with {D}, const?, owning?, description)
    "array": ("multi::array<int, {D}>", False, True, "multi::array<int,D> a"),
    "array_const": ("multi::array<int, {D}> const", True, True, "multi::array<int,D> const a"),
    "static_array": ("multi::static_array<int, {D}>", False, True, "multi::static_array<int,D> a"),
    "static_array_const": ("multi::static_array<int, {D}> const", True, True, "multi::static_array<int,D> const a"),
    "array_ref": ("multi::array_ref<int, {D}>", False, False, "multi::array_ref<int,D> a"),
    "array_ref_const": ("multi::array_ref<int, {D}> const", True, False, "multi::array_ref<int,D> const a"),
    "view_fwd": ("std::remove_reference_t<decltype(std::declval<multi::array<int, {D}>&>()())>", False, False, "auto&& v = a()  (a mutable)"),
    "view_constref": ("std::remove_reference_t<decltype(std::declval<multi::array<int, {D}>&>()())> const", True, False, "auto const& v = a()  (a mutable)"),
    "view_of_const": ("std::remove_reference_t<decltype(std::declval<multi::array<int, {D}> const&>()())>", True, False, "auto&& v = ca()  (ca const)"),
    "view_of_const_constref": ("std::remove_reference_t<decltype(std::declval<multi::array<int, {D}> const&>()())> const", True, False, "auto const& v = ca()  (ca const)"),
}

# steps on array-like objects: name -> (expression template, minimal D, result-D delta, forces const, notes)
A_VIEW_STEPS = {
    "()":            ("{X}()", 1, 0, False),
    "sliced":        ("{X}.sliced(0, 1)", 1, 0, False),
    "sliced3":       ("{X}.sliced(0, 1, 1)", 1, 0, False),
    "strided":       ("{X}.strided(1)", 1, 0, False),
    "range":         ("{X}.range({{0, 1}})", 1, 0, False),
    "dropped":       ("{X}.dropped(0)", 1, 0, False),
    "taked":         ("{X}.taked(1)", 1, 0, False),
    "rotated":       ("{X}.rotated()", 1, 0, False),
    "unrotated":     ("{X}.unrotated()", 1, 0, False),
    "transposed":    ("{X}.transposed()", 2, 0, False),
    "~":             ("(~{X})", 2, 0, False),
    "diagonal":      ("{X}.diagonal()", 2, -1, False),
    "reversed":      ("{X}.reversed()", 1, 0, False),
    "partitioned":   ("{X}.partitioned(1)", 1, +1, False),
    "chunked":       ("{X}.chunked(1)", 1, +1, False),
    "flatted":       ("{X}.flatted()", 2, -1, False),
    "blocked":       ("{X}.blocked(0, 1)", 1, 0, False),
    "stenciled":     ("{X}.stenciled({{0, 1}})", 1, 0, False),
    "reindexed":     ("{X}.reindexed(0)", 1, 0, False),
}
# operations that return read-only views even from mutable sources in this library version (no mutable overload exists): the mutable half of the
# property is not asserted through them; the read-only half is
READONLY_RESULT = {"sliced3", "reversed", "chunked", "blocked", "stenciled"}

CALL_ARGS = {"i": "0", "r": "{0, 1}", "_": "multi::_", "A": "multi::ALL"}
EXHAUSTIVE_CALLS = ["i", "r", "_", "ii", "ir", "ri", "rr", "_i", "iii", "rii", "iri", "rri", "rrr", "iir", "_ii"]


def call_step(sig):
    return "(" + ",".join(sig) + ")"


def steps_for(state, exhaustive):
    """yield (step name, expression template, new state) applicable to `state`"""
    kind, D, const, cat, owning = state
    if kind == "A":
        yield "[0]", "{X}[0]", (("A", D - 1, const, "p", False) if D > 1 else ("EL", 0, const, "p", False))
        yield "front", "{X}.front()", (("A", D - 1, const, "p", False) if D > 1 else ("EL", 0, const, "p", False))
        yield "back", "{X}.back()", (("A", D - 1, const, "p", False) if D > 1 else ("EL", 0, const, "p", False))
        sigs = EXHAUSTIVE_CALLS if exhaustive else ["".join(t) for n in range(1, D + 1) for t in itertools.product("ir_A", repeat=n)]
        for sig in sigs:
            if len(sig) > D:
                continue
            nd = D - sum(1 for c in sig if c == "i")
            yield call_step(sig), "{X}(" + ", ".join(CALL_ARGS[c] for c in sig) + ")", (("A", nd, const, "p", False) if nd > 0 else ("EL", 0, const, "p", False))
        for nm, (tpl, mind, dd, _fc) in A_VIEW_STEPS.items():
            if D < mind or D + dd > MAXD:
                continue
            yield nm, tpl, ("A", D + dd, const, "p", False)
        yield "begin", "{X}.begin()", ("IT", D, const, "p", False)
        yield "end", "{X}.end()", ("IT", D, const, "p", False)
        yield "cbegin", "{X}.cbegin()", ("IT", D, True, "p", False)
        yield "cend", "{X}.cend()", ("IT", D, True, "p", False)
        yield "elements", "{X}.elements()", ("ER", D, const, "p", False)
        yield "home", "{X}.home()", ("CUR", D, const, "p", False)
        if cat == "l":
            yield "as_const", "std::as_const({X})", ("A", D, True, "l", owning)
        if not owning:
            yield "move", "std::move({X})", ("A", D, const, "p", False)
    elif kind == "IT":
        nxt = ("A", D - 1, const, "p", False) if D > 1 else ("EL", 0, const, "p", False)
        yield "*", "(*{X})", nxt
        yield "it[0]", "{X}[0]", nxt
        yield "it+0", "({X} + 0)", ("IT", D, const, "p", False)
    elif kind == "ER":
        yield "er[0]", "{X}[0]", ("EL", 0, const, "p", False)
        yield "er.begin", "{X}.begin()", ("EIT", D, const, "p", False)
        yield "er.end", "{X}.end()", ("EIT", D, const, "p", False)
        yield "er.front", "{X}.front()", ("EL", 0, const, "p", False)
        yield "er.back", "{X}.back()", ("EL", 0, const, "p", False)
    elif kind == "EIT":
        yield "*", "(*{X})", ("EL", 0, const, "p", False)
        yield "eit[0]", "{X}[0]", ("EL", 0, const, "p", False)
    elif kind == "CUR":
        yield "cur[0]", "{X}[0]", (("CUR", D - 1, const, "p", False) if D > 1 else ("EL", 0, const, "p", False))


class Path:
    __slots__ = ("root", "D", "steps", "expr", "state", "ro_step")

    def __init__(self, root, D):
        _t, const, owning, _d = ROOTS[root]
        self.root, self.D, self.steps, self.expr = root, D, [], "r"
        self.state = ("A", D, const, "l", owning)
        self.ro_step = False  # passed through an operation of READONLY_RESULT

    def extend(self, name, tpl, st):
        q = Path.__new__(Path)
        q.root, q.D, q.steps, q.expr, q.state = self.root, self.D, self.steps + [name], tpl.replace("{{", "{").replace("}}", "}").replace("{X}", self.expr), st
        q.ro_step = self.ro_step or name in READONLY_RESULT
        return q

    def text(self):
        return "%s<%d>|%s" % (self.root, self.D, ";".join(self.steps))

    @property
    def expect_const(self):
        return self.state[2]


def parse_path(text, exhaustive=False):
    m = re.match(r"(\w+)<(\d)>\|(.*)$", text.strip())
    p = Path(m.group(1), int(m.group(2)))
    for s in [x for x in m.group(3).split(";") if x]:
        for nm, tpl, st in steps_for(p.state, False):
            if nm == s:
                p = p.extend(nm, tpl, st)
                break
        else:
            return None  # not accepted by the model
    return p


def enumerate_paths(depth, roots=None, dims=(1, 2, 3)):
    for root in (roots or ROOTS):
        for D in dims:
            frontier = [Path(root, D)]
            yield frontier[0]
            for _ in range(depth):
                nf = []
                for p in frontier:
                    if p.state[0] == "EL":
                        continue
                    for nm, tpl, st in steps_for(p.state, True):
                        q = p.extend(nm, tpl, st)
                        nf.append(q)
                        yield q
                frontier = nf


def random_paths(rng, n, min_depth, max_depth):
    roots = sorted(ROOTS)
    out = []
    while len(out) < n:
        p = Path(rng.choice(roots), rng.choice((1, 2, 3)))
        want = rng.randint(min_depth, max_depth)
        while len(p.steps) < want and p.state[0] != "EL":
            opts = list(steps_for(p.state, False))
            # call syntax has many spellings: pick the family first so that it does not dominate
            calls = [o for o in opts if o[0].startswith("(") and o[0] != "()"]
            others = [o for o in opts if not (o[0].startswith("(") and o[0] != "()")]
            pick = rng.choice(calls) if calls and rng.random() < 0.15 else rng.choice(others)
            p = p.extend(*pick)
        if len(p.steps) >= min_depth:
            out.append(p)
    return out


# --------------------------------------------------------------------------------------------------------------- known findings
def load_known(drv):
    """known: property=C16 key=<regex over 'root<D>|steps'> ... ; a path matching a known pattern is excluded from generation (and counted)"""
    pats = []
    for key, src, text in drv.known_findings(PID):
        pats.append((key, re.compile(key.replace("%20", " ")), src, text))
    return pats


# --------------------------------------------------------------------------------------------------------------- translation units
PRELUDE = r'''#include "vp/c16_probe.hpp"
#include <cstdio>
namespace multi = boost::multi;
#define P(ID, ...) struct ID { template<class R> static auto f(R& r) -> decltype((__VA_ARGS__)); };
template<class E> char const* tn() { return __PRETTY_FUNCTION__; }
template<class P_, class R> char const* type_name() { if constexpr(vp16::well_formed<P_, R>::value) { return tn<decltype(P_::f(std::declval<R&>()))>(); } else { return "[E = <not instantiable>]"; } }
'''


def root_type(p):
    return ROOTS[p.root][0].replace("{D}", str(p.D))


def write_tu(paths, fn, known_defs=()):
    with open(fn, "w") as f:
        for d in known_defs:
            f.write("#define %s 1\n" % d)
        f.write(PRELUDE)
        for i, p in enumerate(paths):
            f.write("P(p%d, %s)\n" % (i, p.expr))
        f.write("int main() {\n")
        for i, p in enumerate(paths):
            f.write('  std::printf("%d %%ld %%d %%s\\n", vp16::row<p%d, %s>(), vp16::copy_row<p%d, %s>(), type_name<p%d, %s>());\n' % (i, i, root_type(p), i, root_type(p), i, root_type(p)))
        f.write("  return 0;\n}\n")


def compile_run(paths, workdir, tag, drv, known_defs=()):
    """returns list of (bits, copy, type) per path, or None if the unit does not compile"""
    src = os.path.join(workdir, tag + ".cpp")
    exe = os.path.join(workdir, tag + ".x")
    write_tu(paths, src, known_defs)
    cmd = ["clang++", "-std=gnu++17", "-O0", "-w", "-ferror-limit=3", "-I" + os.path.join(drv.REPO, "include"), "-I" + drv.VERIF, src, "-o", exe]
    r = subprocess.run(cmd, stdout=subprocess.PIPE, stderr=subprocess.STDOUT, text=True)
    if r.returncode != 0:
        return None, r.stdout
    o = subprocess.run([exe], stdout=subprocess.PIPE, text=True).stdout
    res = [None] * len(paths)
    for line in o.splitlines():
        a = line.split(" ", 3)
        m = re.search(r"\[E = (.*)\]$", a[3])
        res[int(a[0])] = (int(a[1]), int(a[2]), m.group(1) if m else a[3])
    for fn in (src, exe):
        try:
            os.remove(fn)
        except OSError:
            pass
    return res, ""


def evaluate(paths, workdir, tag, drv, known_defs=(), hard=None):
    """evaluate with bisection around hard errors; hard collects (path, first error line)"""
    res, err = compile_run(paths, workdir, tag, drv, known_defs)
    if res is not None:
        return res
    if len(paths) == 1:
        if hard is not None:
            m = re.search(r"error: .*", err)
            hard.append((paths[0], m.group(0) if m else err[-200:]))
        return [("HARD", 0, "")]
    h = len(paths) // 2
    return evaluate(paths[:h], workdir, tag + "a", drv, known_defs, hard) + evaluate(paths[h:], workdir, tag + "b", drv, known_defs, hard)


W_ELEM, W_BASE = 1, 16
VIA = {32: "operator[]", 64: "operator*", 128: "elements()", 256: "begin()", 512: "home()", 1024: "front()", 2048: "operator()()", 4096: "operator->"}


def judge(p, r):
    """-> (verdict, detail) verdict in ok | skip | violation"""
    bits, copy, tname = r
    if bits == "HARD":
        return "hard", "the path is a hard compile error"
    if bits < 0:
        return "skip", "not instantiable"
    kind = p.state[0]
    via = ", ".join(v for b, v in VIA.items() if bits & b)
    if p.expect_const:
        if bits & W_ELEM:
            return "violation", "const/writable_element: a modifiable element reference is reachable from the end of this read-only path (%s); type %s" % ("directly" if kind == "EL" else "through " + via, tname)
        if bits & W_BASE:
            return "violation", "const/mutable_base_pointer: base()/data_elements() of the object at the end of this read-only path is a pointer to non-const; type %s" % tname
    else:
        if not p.ro_step and not (bits & W_ELEM):
            return "violation", "mutable/readonly: no modifiable element reference is reachable from the end of this path although it starts at a mutable object and passes through no const-forcing step; type %s" % tname
    return "ok", ""


def is_reference_type(tname):
    return bool(re.match(r"(const )?boost::multi::(const_subarray|subarray|array_ref)<", tname))


# --------------------------------------------------------------------------------------------------------------- phase 2: statements on terminal types
STATEMENTS = {
    "assign_from_array": ("A", "void t(X&& x, multi::array<int, vp16::rr<X>::rank_v> const& y) { static_cast<X&&>(x) = y; }"),
    "assign_from_same_const": ("AE", "void t(X&& x, vp16::rr<X> const& y) { static_cast<X&&>(x) = y; }"),
    "assign_from_same_rvalue": ("AE", "void t(X&& x, vp16::rr<X>&& y) { static_cast<X&&>(x) = std::move(y); }"),
    "swap": ("AE", "void t(X&& x, X&& y) { using std::swap; swap(static_cast<X&&>(x), static_cast<X&&>(y)); }"),
    "member_swap": ("A", "void t(X&& x, X&& y) { static_cast<X&&>(x).swap(static_cast<X&&>(y)); }"),
    "fill": ("A", "void t(X&& x) { static_cast<X&&>(x).fill(0); }"),
    "elements_assign": ("A", "void t(X&& x, X&& y) { static_cast<X&&>(x).elements() = static_cast<X&&>(y).elements(); }"),
}


def builds(p, stmt, workdir, tag, drv):
    src = os.path.join(workdir, tag + ".cpp")
    exe = os.path.join(workdir, tag + ".x")
    with open(src, "w") as f:
        f.write(PRELUDE)
        f.write("P(p0, %s)\nusing X = decltype(p0::f(std::declval<%s&>()));\n%s\nint main() { return 0; }\n" % (p.expr, root_type(p), STATEMENTS[stmt][1]))
    r = subprocess.run(["clang++", "-std=gnu++17", "-O0", "-w", "-ferror-limit=1", "-I" + os.path.join(drv.REPO, "include"), "-I" + drv.VERIF, src, "-o", exe],
                       stdout=subprocess.PIPE, stderr=subprocess.STDOUT, text=True)
    for fn in (src, exe):
        try:
            os.remove(fn)
        except OSError:
            pass
    return r.returncode == 0


# --------------------------------------------------------------------------------------------------------------- driver
def sig_of(p, detail):
    """root cause signature of a violation: verdict key + the last step + the type at the end (many paths share one cause)"""
    key = detail.split(":")[0]
    m = re.search(r"type (.*)$", detail)
    return key + "@" + (p.steps[-1] if p.steps else "root") + "@" + (m.group(1) if m else "")


def shrink(p, key, workdir, drv, ro_names):
    """delete steps while the model accepts the path and the same verdict key persists"""
    cur = p
    improved = True
    while improved and len(cur.steps) > 1:
        improved = False
        cands = []
        for i in range(len(cur.steps)):
            q = parse_path("%s<%d>|%s" % (cur.root, cur.D, ";".join(cur.steps[:i] + cur.steps[i + 1:])))
            if q is not None:
                q.ro_step = any(s in ro_names for s in q.steps)
                cands.append(q)
        if not cands:
            break
        res = evaluate(cands, workdir, "shrink", drv)
        for q, r in zip(cands, res):
            v, d = judge(q, r)
            if v == "violation" and d.split(":")[0] == key:
                cur, improved = q, True
                break
    return cur


def phase2(paths_by_type, workdir, drv, W):
    """paths_by_type: {(type name, kind): representative path}; returns {(type, kind): {stmt: builds?}}"""
    jobs = []
    for (tname, kind), p in paths_by_type.items():
        for st, (kinds, _code) in STATEMENTS.items():
            if ("A" in kinds and kind == "A") or ("E" in kinds and kind == "ER"):
                jobs.append(((tname, kind), st, p))
    out = {}

    def one(j):
        k, st, p = j
        return k, st, builds(p, st, workdir, "s%d" % jobs.index(j), drv)
    with ThreadPoolExecutor(W) as ex:
        for k, st, ok in ex.map(one, jobs):
            out.setdefault(k, {})[st] = ok
    return out, len(jobs)


def run(pid, a, seed, drv):
    t0 = time.time()
    P = drv.P
    cfg = P.PROPS[pid]
    tier = a.tier
    workdir = os.path.join(drv.VERIF, "build", "c16_%d" % os.getpid())
    os.makedirs(workdir, exist_ok=True)
    faildir = os.path.join(drv.VERIF, "failures", pid)
    os.makedirs(faildir, exist_ok=True)
    try:
        return run_(pid, a, seed, drv, cfg, tier, workdir, faildir, t0)
    finally:
        shutil.rmtree(workdir, ignore_errors=True)


def eval_all(paths, workdir, drv, W, hard, batch=400):
    batches = [paths[i:i + batch] for i in range(0, len(paths), batch)]

    def ev(ib):
        return evaluate(ib[1], workdir, "b%d" % ib[0], drv, (), hard)
    with ThreadPoolExecutor(W) as ex:
        results = list(ex.map(ev, enumerate(batches)))
    return [r for rs in results for r in rs]


def run_(pid, a, seed, drv, cfg, tier, workdir, faildir, t0):
    W = drv.W
    known = load_known(drv)
    # operations recorded as "mutable source, read-only result" findings are not asserted in the mutable half (excluded by construction, counted)
    ro_names = set()
    for key, _rx, _src, _text in known:
        m = re.match(r"mutable/readonly@(\S+)$", key)
        if m:
            ro_names.add(m.group(1))
    global READONLY_RESULT
    READONLY_RESULT = ro_names
    labels, counters = {}, {}

    def lab(k, n=1):
        labels[k] = labels.get(k, 0) + n

    def cnt(k, n=1):
        counters[k] = counters.get(k, 0) + n

    # ---- replay of one path
    if a.replay:
        text = open(a.replay).read().split("\n")[0].strip()
        p = parse_path(text)
        if p is None:
            print("the generator's model does not accept the path %r" % text)
            return 2
        p.ro_step = any(s in ro_names for s in p.steps) and os.environ.get("VP_KNOWN") != "1"
        hard = []
        r = evaluate([p], workdir, "replay", drv, (), hard)[0]
        v, d = judge(p, r)
        print("case: %s  =>  %s   [type %s]" % (p.text(), p.expr, r[2]))
        if v != "violation" and p.state[0] in ("A", "ER") and r[0] != "HARD" and r[0] >= 0:
            res, _n = phase2({(r[2], p.state[0]): p}, workdir, drv, W)
            v, d = judge2(p, r[2], res[(r[2], p.state[0])], r[1])
        if v == "violation":
            print("FAIL key=%s\n%s" % (d.split(":")[0], d))
            print("VIOLATION property=%s replay=%s" % (pid, os.path.abspath(a.replay)))
            return 1
        print("PASS (%s)" % v)
        return 0

    # ---- generation
    depth = cfg[tier]["depth"]
    paths = list(enumerate_paths(depth))
    n_exh = len(paths)
    rng = random.Random(1000003 * (seed + 1))
    paths += random_paths(rng, cfg[tier]["random"], depth + 1, depth + 4)
    # regression corpus
    corpus = []
    for fn in sorted(os.listdir(os.path.join(drv.VERIF, "corpus", pid))) if os.path.isdir(os.path.join(drv.VERIF, "corpus", pid)) else []:
        if fn.endswith(".path"):
            q = parse_path(open(os.path.join(drv.VERIF, "corpus", pid, fn)).read().split("\n")[0])
            if q is not None:
                corpus.append(q)
    paths = corpus + paths
    seen, uniq = set(), []
    for p in paths:
        t = p.text()
        if t in seen:
            continue
        seen.add(t)
        p.ro_step = any(s in ro_names for s in p.steps)
        if p.ro_step and not p.expect_const:
            cnt("mutable_paths_through_known_readonly_operations")
        uniq.append(p)
    paths = uniq
    drv.log("[%s] %d paths (%d bounded-exhaustive to depth %d, %d random to depth %d, %d corpus)" % (pid, len(paths), n_exh, depth, cfg[tier]["random"], depth + 4, len(corpus)))

    # ---- phase 1
    hard = []
    results = eval_all(paths, workdir, drv, W, hard)
    if len(hard) > 200:
        drv.log("[%s] INFRASTRUCTURE ERROR: %d generated paths are hard compile errors (first: %s: %s)" % (pid, len(hard), hard[0][0].text(), hard[0][1]))
        return 2
    viol = {}  # signature -> (path, detail)
    by_type_const, by_type_mut = {}, {}
    samples = []
    nontrivial = set()
    for p, r in zip(paths, results):
        v, d = judge(p, r)
        lab("verdict_" + v)
        lab(("readonly_path" if p.expect_const else "mutable_path"))
        lab("end_kind_" + p.state[0])
        lab("root_" + p.root)
        lab("depth_%d" % min(len(p.steps), 7))
        if v in ("skip", "hard"):
            cnt("paths_not_instantiable" if v == "skip" else "paths_hard_error")
            continue
        if len(p.steps) >= 2:
            nontrivial.add(p.text())
        if v == "violation":
            s = sig_of(p, d)
            if s not in viol or len(p.steps) < len(viol[s][0].steps):
                viol[s] = (p, d)
            continue
        if p.state[0] in ("A", "ER"):
            k = (r[2], p.state[0])
            tgt = by_type_const if p.expect_const else (by_type_mut if not p.ro_step else None)
            if tgt is not None and (k not in tgt or len(p.steps) < len(tgt[k][0].steps)):
                tgt[k] = (p, r[1])
    rs = random.Random(7)
    for p in rs.sample(paths, min(12, len(paths))):
        samples.append("%s  =>  %s" % (p.text(), p.expr))

    # ---- phase 2: statements on the distinct types at the end of read-only paths (and assignability of the types at the end of mutable paths)
    reps = {k: v[0] for k, v in by_type_const.items()}
    res_c, n2c = phase2(reps, workdir, drv, W)
    for k, st in res_c.items():
        p, copy = by_type_const[k]
        v, d = judge2(p, k[0], st, copy)
        if v == "violation":
            viol.setdefault(sig_of(p, d), (p, d))
    reps_m = {k: v[0] for k, v in by_type_mut.items() if k[1] == "A"}
    jobs_m = {k: p for k, p in reps_m.items()}
    res_m, n2m = phase2(jobs_m, workdir, drv, W)
    for k, st in res_m.items():
        p, copy = by_type_mut[k]
        v, d = judge2(p, k[0], st, copy)
        if v == "violation":
            viol.setdefault(sig_of(p, d), (p, d))
    cnt("phase2_distinct_readonly_end_types", len(reps))
    cnt("phase2_distinct_mutable_end_types", len(reps_m))
    cnt("phase2_statement_builds", n2c + n2m)

    # ---- known findings: replayed without the exclusion; still failing -> KNOWN-FINDING line
    for key, _rx, src, text in known:
        if not src or src[0] != "file":
            continue
        q = parse_path(open(os.path.join(drv.VERIF, src[1])).read().split("\n")[0])
        if q is None:
            continue
        q.ro_step = False
        r = evaluate([q], workdir, "known", drv)[0]
        v, d = judge(q, r)
        if v == "violation" and d.startswith(key.split("@")[0]):
            print("KNOWN-FINDING: property=%s %s [%s]" % (pid, text, q.text()))
        else:
            drv.log("[%s] note: listed finding %s no longer reproduces" % (pid, key))

    # ---- report
    rc = 0
    shown = 0
    for s, (p, d) in sorted(viol.items(), key=lambda kv: len(kv[1][0].steps)):
        key = d.split(":")[0]
        if not key.startswith("stmt/") and not key.startswith("view/"):
            p = shrink(p, key, workdir, drv, ro_names)
        fn = os.path.join(faildir, "%s@%s.path" % (pid, hashlib.sha1(p.text().encode()).hexdigest()[:10]))
        with open(fn, "w") as f:
            f.write(p.text() + "\n# expression: " + p.expr + "\n# root: " + ROOTS[p.root][3] + " with D=" + str(p.D) + "\n# " + d + "\n")
        if shown < 8:
            print("case: %s  =>  %s" % (p.text(), p.expr))
            print("FAIL key=%s\n%s" % (key, d))
            print("VIOLATION property=%s replay=%s" % (pid, fn))
            shown += 1
        rc = 1
    evals = len(paths) + n2c + n2m
    ev = {
        "property_id": pid, "tier": tier, "seed": seed, "level": cfg.get("level", "exploration"),
        "coverage": {"evaluations": evals, "distinct_nontrivial": len(nontrivial), "rule": cfg["rule"], "samples": samples, "labels": labels, "counters": counters,
                     "workers": W, "exhaustive": False, "bounded_exhaustive_depth": depth, "bounded_exhaustive_paths": n_exh, "random_paths": cfg[tier]["random"]},
        "assumptions": cfg.get("assumptions", []), "wall_s": round(time.time() - t0, 1), "violations": len(viol),
    }
    os.makedirs(os.path.join(drv.VERIF, "evidence"), exist_ok=True)
    with open(os.path.join(drv.VERIF, "evidence", pid + ".json"), "w") as f:
        json.dump(ev, f, indent=1)
    if rc == 0 and (evals < cfg[tier]["floor"] or len(nontrivial) < 2):
        drv.log("[%s] INCONCLUSIVE: %d evaluations (floor %d)" % (pid, evals, cfg[tier]["floor"]))
        return 2
    print("%s property=%s tier=%s evaluations=%d distinct_nontrivial=%d wall=%ds" % ("OK" if rc == 0 else "FAILED", pid, tier, evals, len(nontrivial), time.time() - t0))
    return rc


def judge2(p, tname, st, copy):
    """phase-2 verdict for the object at the end of path p (type tname): st = {statement: builds?}"""
    if p.expect_const:
        bad = sorted(s for s, ok in st.items() if ok)
        if bad:
            return "violation", "stmt/readonly_object_accepts_%s: the object at the end of this read-only path accepts %s (the statement compiles and links); type %s" % (bad[0], ", ".join(bad), tname)
    else:
        if p.state[0] == "A" and not st.get("assign_from_array", True):
            return "violation", "stmt/mutable_view_rejects_assignment: the array or view at the end of this mutable path does not accept assignment from an array of its dimensionality; type %s" % tname
    if p.state[0] == "A" and copy == 1 and is_reference_type(tname):
        return "violation", "view/copy_constructible: a named object of this reference type can be copy-constructed into another object; type %s" % tname
    return "ok", ""
