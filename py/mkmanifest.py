#!/usr/bin/env python3
"""Regenerates MANIFEST.json from py/props.py (claimed checks) -- run after adding a property."""
import json, os, sys
sys.path.insert(0, os.path.dirname(os.path.abspath(__file__)))
import props as P

NOT_YET = "check not built yet in this commit (work in progress; DESIGN.md section 4 describes the planned check)"
ALL = ["C%02d" % i for i in range(1, 21)]
m = {
    "version": 1,
    "setup_cmd": "true",
    "hooks": {"guard": "BOOST_MULTI_VERIF",
              "enable": "no hooks are needed: everything is observed through template parameters (element, allocator, pointer types), link-time interposition and addresses; the guard name is reserved and unused",
              "baseline_off_cmd": "/verif/baseline.sh", "source_commits": [], "add_only": True},
    "engines": [{"name": "rapidcheck+libFuzzer harness", "path": "/verif/check", "serves_properties": sorted(k for k in P.PROPS if "custom" not in P.PROPS[k]),
                 "kind_free_text": "property-based testing (rapidcheck, 16 worker processes) and coverage-guided fuzzing (libFuzzer) over one shared byte-level input format with a total decoder and an explicit model oracle; replay files are the raw input bytes"},
                {"name": "generated-program harness", "path": "/verif/py/c16.py", "serves_properties": ["C16"],
                 "kind_free_text": "grammar-based generation of C++ access-path expressions (bounded-exhaustive + seeded random) evaluated by the real compiler: type-level probes in batched translation units and build/link attempts of mutating statements; replay files are the path text; started through /verif/check"}],
    "checks": [], "not_applicable": [], "notes": "see DESIGN.md; known_findings.txt lists recorded and fixed defects",
}
for i in ALL:
    if i in P.PROPS:
        c = P.PROPS[i]
        m["checks"].append({
            "property_id": i, "quick_cmd": "./check %s --tier quick" % i, "thorough_cmd": "./check %s --tier thorough" % i,
            "evidence_file": "/verif/evidence/%s.json" % i, "replay_cmd_template": "./check %s --replay {path}" % i,
            "engine": c.get("engine", "rapidcheck+libFuzzer harness"),
            "level_claimed": {"category": c.get("level", "exploration"), "text": c["level_text"], "design_ref": c.get("design_ref", "DESIGN.md section 4, " + i)},
            "level_note": c.get("level_note", "trusted base: clang++ 14 with ASan/UBSan, rapidcheck, libFuzzer and the reference model/oracle code under /verif/vp; bounds as stated in the evidence rule; no claim beyond the explored cases"),
            "technique": c["technique"]})
    else:
        m["not_applicable"].append({"property_id": i, "reason": P.NOT_APPLICABLE.get(i, NOT_YET)})
json.dump(m, open(os.path.join(os.path.dirname(os.path.abspath(__file__)), "..", "MANIFEST.json"), "w"), indent=1)
print("claimed:", [c["property_id"] for c in m["checks"]])
