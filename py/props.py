"""Per-property configuration of the ./check driver: targets (translation units), case counts, evidence texts."""

COMMON_ASSUME = [
    "harness built with clang++ 14 -O0, ASan+UBSan, library assertions enabled (no -DNDEBUG): any sanitizer report or library assertion on a generated (in-domain) case is a failure",
    "bounds: extents 0..7 per dimension, root dimensionality <= 4 (views up to 5), <= MAXOPS operations per case",
    "views of arrays with zero elements (null data pointer) are only indexed/sliced/dropped at offset 0: the library asserts that a null pointer is never offset",
]

PROPS = {}
NOT_APPLICABLE = {}

PROPS["C01"] = dict(
    targets=[dict(name="C01", src="vp/props/C01.cpp", maxlen=12 + 4*12)],
    quick=dict(cases=2500, floor=20000),
    thorough=dict(cases=60000, floor=400000, fuzz=dict(time=420)),
    level="exploration",
    level_text=("Generated-input search (rapidcheck, 16 workers; plus libFuzzer in the thorough tier) over root shapes and view-operation sequences against an independent "
                "index-mapping model; every element of every resulting view is checked through all access paths, under ASan/UBSan with library assertions on. "
                "Bounded, dense exploration; cannot prove absence."),
    technique="model-based differential testing of generated view-operation sequences (rapidcheck + libFuzzer), index-mapping reference model",
    rule=("case = root kind {array, array const, static_array(+const), array_ref(+const)} x D in 1..4 x extents from a table over 0..7 "
          "+ up to 12 operation records decoded totally (indices modulo the current model extent, strides/partition counts from the divisors of the "
          "current size, value category & / && / const& per call; operations not applicable to the current view are skipped and counted); "
          "oracle = index-mapping model: after every operation sizes/size/num_elements/extensions/is_empty/strides, at the end every index tuple through "
          "chained [], call syntax, apply(tuple), cursor, on the view and on its const alias: address == model position == value, inside the root; broadcasted()[k] == source. "
          "non-trivial = >= 2 applied operations, >= 1 of them layout-changing (rotate/transpose/reverse/diagonal/partition/chunk/flat), final view has >= 2 elements; "
          "distinct = 64-bit hash of the decoded case text"),
    assumptions=COMMON_ASSUME,
)

PROPS["C02"] = dict(
    targets=[dict(name="C02", src="vp/props/C02.cpp", maxlen=12 + 4*8)],
    quick=dict(cases=1500, floor=12000),
    thorough=dict(cases=30000, floor=200000, fuzz=dict(time=360)),
    level="exploration",
    level_text=("Generated-input search over views produced by the C01 generator; the random-access iterator laws and the canonical-order model of elements() are checked "
                "at all (or a spread sample of) positions and position pairs, every dereference is compared with the model position. Bounded exploration; cannot prove absence."),
    technique="algebraic iterator laws + canonical-order reference model over generated views (rapidcheck + libFuzzer)",
    rule=("case = the C01 generator (root kind x D in 1..4 x extents 0..7 + up to 8 view operations) produces the view; oracle = random-access laws on "
          "begin()/end(), const begin()/end(), cbegin()/cend() (distance, ++/-- inverse, +=/-=/+/- round trips, <,<=,>,>=,==,!= against positions, it[n] vs *(it+n), "
          "copy and assignment, post-increment/decrement, *(begin+p) is v[p-th index], const/mutable iterators compare equal) over all positions when size<=9 else a spread sample "
          "containing both ends; elements() and const elements(): size, forward ++ walk, backward -- walk from end, elements()[k], front/back, +=, -=, it+n, it-n, it[n], "
          "copy, assignment, comparisons -- every dereference compared with the k-th index tuple in canonical order computed by the model (address - root == model position); "
          "cursor home()[o]... at every ordinal tuple. non-trivial = final view not compact row-major and >= 2 elements (backward steps, offset subtraction and iterator "
          "assignment are exercised in every case); distinct = 64-bit hash of the decoded case text"),
    assumptions=COMMON_ASSUME + ["roots with zero elements (null data pointer) are excluded from the iterator laws and counted (excluded_null_root): end() offsets the null pointer, see known_findings.txt"],
)
