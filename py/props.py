"""Per-property configuration of the ./check driver: targets (translation units), case counts, evidence texts."""

COMMON_ASSUME = [
    "harness built with clang++ 14 -O0, ASan+UBSan, library assertions enabled (no -DNDEBUG): any sanitizer report or library assertion on a generated (in-domain) case is a failure",
    "bounds: extents 0..7 per dimension, root dimensionality <= 4 (views up to 5), <= MAXOPS operations per case",
    "views of arrays with zero elements (null data pointer) are only indexed/sliced/dropped at offset 0: the library asserts that a null pointer is never offset",
]

PROPS = {}

PROPS["C01"] = dict(
    targets=[dict(name="C01", src="vp/props/C01.cpp", maxlen=12 + 4*12)],
    quick=dict(cases=2500, floor=20000),
    thorough=dict(cases=60000, floor=400000, fuzz=dict(time=420)),
    level="exploration",
    rule=("case = root kind {array, array const, static_array(+const), array_ref(+const)} x D in 1..4 x extents from a table over 0..7 "
          "+ up to 12 operation records decoded totally (indices modulo the current model extent, strides/partition counts from the divisors of the "
          "current size, value category & / && / const& per call; operations not applicable to the current view are skipped and counted); "
          "oracle = index-mapping model: after every operation sizes/size/num_elements/extensions/is_empty/strides, at the end every index tuple through "
          "chained [], call syntax, apply(tuple), cursor, on the view and on its const alias: address == model position == value, inside the root; broadcasted()[k] == source. "
          "non-trivial = >= 2 applied operations, >= 1 of them layout-changing (rotate/transpose/reverse/diagonal/partition/chunk/flat), final view has >= 2 elements; "
          "distinct = 64-bit hash of the decoded case text"),
    assumptions=COMMON_ASSUME,
)
