"""Per-property configuration of the ./check driver: targets (translation units), case counts, evidence texts."""

COMMON_ASSUME = [
    "harness built with clang++ 14 -O0, ASan+UBSan, library assertions enabled (no -DNDEBUG): any sanitizer report or library assertion on a generated (in-domain) case is a failure",
    "bounds: extents 0..7 per dimension, root dimensionality <= 4 (views up to 5), <= MAXOPS operations per case",
    "views of arrays with zero elements (null data pointer) are only indexed/sliced/dropped at offset 0: the library asserts that a null pointer is never offset",
]

PROPS = {}
NOT_APPLICABLE = {}
PROBE_FLAGS = {}

PROPS["C01"] = dict(
    targets=[dict(name="C01", src="vp/props/C01.cpp", maxlen=12 + 4*12)],
    quick=dict(cases=5000, floor=40000),
    thorough=dict(cases=60000, floor=400000, fuzz=dict(time=420)),
    level="exploration",
    level_text=("Generated-input search (rapidcheck, 16 workers; plus libFuzzer in the thorough tier) over root shapes and view-operation sequences against an independent "
                "index-mapping model; every element of every resulting view is checked through all access paths, under ASan/UBSan with library assertions on. "
                "Bounded, dense exploration; cannot prove absence."),
    technique="model-based differential testing of generated view-operation sequences (rapidcheck + libFuzzer), index-mapping reference model",
    rule=("case = root kind {array, array const, static_array(+const), array_ref(+const)} x D in 1..4 x extents from a table over 0..7 "
          "+ up to 12 operation records decoded totally (indices modulo the current model extent, strides/partition counts from the divisors of the "
          "current size, value category & / && / const& per call; operations not applicable to the current view are skipped and counted); "
          "oracle = index-mapping model: after every operation sizes/size/num_elements/extensions/is_empty/strides, at the end every index tuple through "
          "chained [], call syntax, apply(tuple), cursor, on the view and on its const alias: address == model position == value, inside the root; broadcasted()[k] == source. "
          "non-trivial = >= 2 applied operations, >= 1 of them layout-changing (rotate/transpose/reverse/diagonal/partition/chunk/flat), final view has >= 2 elements; "
          "distinct = 64-bit hash of the decoded case text"),
    assumptions=COMMON_ASSUME,
)

PROPS["C02"] = dict(
    targets=[dict(name="C02", src="vp/props/C02.cpp", maxlen=12 + 4*8)],
    quick=dict(cases=2500, floor=20000),
    thorough=dict(cases=30000, floor=200000, fuzz=dict(time=360)),
    level="exploration",
    level_text=("Generated-input search over views produced by the C01 generator; the random-access iterator laws and the canonical-order model of elements() are checked "
                "at all (or a spread sample of) positions and position pairs, every dereference is compared with the model position; iterators of a foreign range of another shape (same static type) are assigned from this range's iterators and must then step, jump and subscript exactly like them. Bounded exploration; cannot prove absence."),
    technique="algebraic iterator laws + canonical-order reference model over generated views (rapidcheck + libFuzzer)",
    rule=("case = the C01 generator (root kind x D in 1..4 x extents 0..7 + up to 8 view operations) produces the view; oracle = random-access laws on "
          "begin()/end(), const begin()/end(), cbegin()/cend() (distance, ++/-- inverse, +=/-=/+/- round trips, <,<=,>,>=,==,!= against positions, it[n] vs *(it+n), "
          "copy and assignment, post-increment/decrement, *(begin+p) is v[p-th index], const/mutable iterators compare equal) over all positions when size<=9 else a spread sample "
          "containing both ends; elements() and const elements(): size, forward ++ walk, backward -- walk from end, elements()[k], front/back, +=, -=, it+n, it-n, it[n], "
          "copy, assignment, comparisons -- every dereference compared with the k-th index tuple in canonical order computed by the model (address - root == model position); "
          "cursor home()[o]... at every ordinal tuple. non-trivial = final view not compact row-major and >= 2 elements (backward steps, offset subtraction and iterator "
          "assignment are exercised in every case); distinct = 64-bit hash of the decoded case text"),
    assumptions=COMMON_ASSUME + ["roots with zero elements (null data pointer) are excluded from the iterator laws and counted (excluded_null_root): end() offsets the null pointer, see known_findings.txt"],
)

PROPS["C07"] = dict(
    targets=[dict(name="C07", src="vp/props/C07.cpp", maxlen=12 + 3*6)],
    quick=dict(cases=5000, floor=40000),
    thorough=dict(cases=60000, floor=400000),
    level="exploration",
    level_text=("Generated pairs and triples of operands of equal dimensionality 0..4, equal or perturbed extents, few element mutations over {0,1,2}, each operand independently "
                "realised as array / array_ref / view / transposed, rotated, padded or strided storage / array<long> / const-pointer view; every relational operator is compared "
                "with a nested-vector model and the order laws are checked on triples; for D >= 2 also two views of one array with the same origin, extents and leading stride but differently strided rows. Bounded exploration; cannot prove absence."),
    technique="differential testing against a nested-vector reference model + algebraic order laws on generated operand triples (rapidcheck)",
    rule=("case = D in 0..4, extents of A from {0..4}, B and C = A's extents with probability 1/2 else one extent +-1, elements = a position pattern over {0,1,2} plus up to 6 "
          "point mutations, realisation kind per operand from 9 kinds; oracle = model: == iff same extents and equal elements, != its negation, <,<=,>,>= recursive lexicographic "
          "(proper prefix smaller), trichotomy, irreflexivity, asymmetry, transitivity of < and ==; for operands with zero elements only (a==b)==!(a!=b). "
          "non-trivial = no operand empty, A has >= 2 elements and (A,B realised with different layouts or shapes differ); distinct = hash of decoded case text"),
    assumptions=COMMON_ASSUME[:1] + ["operands are zero-based (index bases are C19's subject)", "ordering operators between views of different element or pointer-constness types are not instantiated (mixed-type < is ambiguous or absent in the library); those pairs take part in == / != only",
                 "0-D: array<T,0> == array<T,0> does not compile on the pinned tree (known finding); the forms that compile (A() op B(), ordering of arrays, array == element) are checked"],
)

PROPS["C19"] = dict(
    targets=[dict(name="C19", src="vp/props/C19.cpp", maxlen=13 + 4*10)],
    quick=dict(cases=3000, floor=24000),
    thorough=dict(cases=40000, floor=300000, fuzz=dict(time=360)),
    level="exploration",
    level_text=("The C01 and C02 programs (view-operation sequences, element access through all paths, iterator and elements() laws) are generated over roots whose index "
                "extensions start at -3..3 per dimension, with reindexed() and blocked() among the operations; index arguments are drawn as ordinals and shifted by the current "
                "first index, and the model (which tracks the first index per dimension) states which root element every index tuple must designate -- exactly the element the "
                "zero-based twin designates at the shifted index. The C06 program (reextent to explicit index extensions, copy, equality) and the C05 program (every assignment form "
                "through re-based views, sources given the destination's index bases) are replayed on re-based arrays too. Bounded exploration; cannot prove absence."),
    technique="metamorphic/model-based testing: generated view programs on re-based arrays vs an index-mapping model with explicit first indices (rapidcheck + libFuzzer)",
    rule=("case = header selects the C01 program (shape + element checks), the C02 program (iterators, elements(), cursors) or the C06 program (histories of reextent to explicit index extensions with a fill value, construction, copy construction/assignment, element writes and == over two arrays of D in 1..2, compared with an index-tuple -> value model); root kind x D in 1..4 x extents 0..7 x base in -3..3 "
          "per dimension + up to 10 operations incl. reindexed(i) and blocked(a,b); strided(s) only where s divides the current first index (extension() asserts offset % stride == 0) and "
          "diagonal() only on zero-based views (it slices with literal {0,n}); oracle as in C01/C02 with first indices in the model. "
          "non-trivial = as in the replayed program; distinct = hash of decoded case text"),
    assumptions=COMMON_ASSUME + ["re-based arrays with zero elements: only shape operations are applied (slicing trips the recorded null-pointer-offset assertion)"],
)

PROPS["C04"] = dict(
    targets=[dict(name="C04", src="vp/props/C04.cpp", maxlen=2 + 8*10)],
    quick=dict(cases=5000, floor=40000),
    thorough=dict(cases=50000, floor=400000, fuzz=dict(time=360)),
    level="exploration",
    level_text=("Stateful model-based testing: generated histories over a pool of four owning arrays (element int or an instrumented Tracked type, D in 0..4) of every constructor form, "
                "copy/move construction and assignment, assignment from generated views of another pool member, from arrays of convertible element type, from nested initializer lists, "
                "self-assignment, swap, decay/unary plus, element writes, clear and assignment through views of two arrays of equal extents (A() = B(), elements(), rows); after every step every slot is compared element by element with its (extents, vector) model, storage "
                "ranges are pairwise disjoint, moves perform no element operation and transfer the buffer, and the Tracked registry shows no lifetime error. Bounded exploration."),
    technique="stateful model-based testing of generated operation histories against a (extents, vector) reference model (rapidcheck + libFuzzer)",
    rule=("case = element type {int, Tracked} x D in 0..4 + up to 10 history records (operation, target slot, source slot, argument bytes, 4 bytes of view program for the from-view forms); "
          "source views are produced by the dimension-preserving subset of the C01 interpreter (sliced, range, strided, dropped, taked, rotated, unrotated, transposed, reversed, call syntax "
          "with ranges/all) from the mutable or const source; oracle = model per slot. non-trivial = the history has >= 2 operations and contains an assignment over a prior state of different "
          "extents, or from a non-contiguous view, or onto a moved-from array; distinct = hash of decoded history text"),
    assumptions=COMMON_ASSUME[:1] + ["extents 0..4 per dimension", "constructor from an iterator pair is only called with a non-empty range of non-empty elements (the library dereferences *first; its own callers check size()==0 first)",
                 "D = 0 (one case in eight): arrays of exactly one element; the forms that instantiate are exercised (construction from a value, default construction, copy / move construction and assignment, swap, assignment of a value or of an array of convertible element type, self-assignment); a moved-from 0-D array keeps a valid, unspecified value"],
)

PROPS["C06"] = dict(
    targets=[dict(name="C06", src="vp/props/C06.cpp", maxlen=2 + 8*10)],
    quick=dict(cases=5000, floor=40000),
    thorough=dict(cases=50000, floor=400000, fuzz=dict(time=360)),
    level="exploration",
    level_text=("Stateful model-based testing: generated histories of reextent(x), reextent(x, v), moved reextent, reextent to the current extents, clear, = {}, reshape, assign(first,last), "
                "assignment from nested initializer lists, constructors, copies and element writes over a pool of arrays (int and an instrumented non-trivial element, D in 1..4); after every "
                "step every array is compared element by element with a model that keeps the intersection of old and new extents and fills the rest. Bounded exploration."),
    technique="stateful model-based testing of generated resize histories against an index->value reference model (rapidcheck + libFuzzer)",
    rule=("case = element type {int, Tracked} x D in 1..4 + up to 10 history records; new extents = old extents +-{0,1,2} per dimension clipped to 0..5 (growing, shrinking, mixed, to/from empty); "
          "oracle = every index tuple in old and new keeps its value, every other element equals the fill value, or a value-initialised element for the non-trivial type; new elements of int without "
          "a fill value are unspecified and are written by the harness, never read; no-op reextent keeps data_elements() and a saved elements() iterator; reshape keeps the flat sequence and the "
          "storage; assign/initializer lists give exactly the requested contents. non-trivial = some reextent where old and new both have elements and the intersection is a proper non-empty subset "
          "of both, or an assignment that changes extents; distinct = hash of decoded history text"),
    assumptions=COMMON_ASSUME[:1] + ["extents 0..5 per dimension", "array::assign(extensions, value) does not instantiate on the pinned tree (cast to a private base) and is not exercised",
                 "assign(first,last) is called with a non-empty range of non-empty rows (the library dereferences *first)"],
)

PROPS["C08"] = dict(
    targets=[dict(name="C08", src="vp/props/C08.cpp", maxlen=2 + 8*10)],
    quick=dict(cases=5000, floor=40000),
    thorough=dict(cases=50000, floor=400000, fuzz=dict(time=360)),
    level="exploration",
    level_text=("Stateful testing with an instrumented element type (registry of live objects: construction over a live object, use or destruction of a dead one, double destruction are "
                "reported at once) and an observing allocator (ledger of outstanding blocks, size-matched deallocate, painted fresh memory): generated histories of every constructor form, "
                "copy, move, same- and different-extent assignment, the three reextent overloads, clear, swap, reshape, assign, destruction; after every step the live elements are exactly "
                "those of the arrays and the outstanding blocks exactly their storage; at the end nothing is outstanding. Trivial elements created by sizing constructors / reextent without "
                "value still hold the allocator's paint. Bounded exploration."),
    technique="stateful testing of generated histories with a live-object registry and an allocation ledger as oracle (rapidcheck + libFuzzer)",
    rule=("case = element type {Tracked (2/3), Pod (1/3)} x D in 1..3 + up to 10 history records over a pool of 4 arrays with an always-equal observing allocator; oracle = registry + ledger "
          "invariants after every step and at the end, plus the value model of C04/C06. non-trivial = >= 3 operations with a storage-changing assignment or reextent on a non-empty array; "
          "distinct = hash of decoded history text"),
    assumptions=COMMON_ASSUME[:1] + ["extents 0..5 per dimension", "allocator identity/propagation is C10's subject: the allocator here is is_always_equal", "serialisation-load is exercised by C17 with the same instrumented element, not here"],
)

PROPS["C09"] = dict(
    targets=[dict(name="C09", src="vp/props/C09.cpp", maxlen=3 + 8*6, kinds=["rc"])],
    quick=dict(cases=3000, floor=24000),
    thorough=dict(cases=120000, floor=1000000),
    level="fault_enumeration",
    level_text=("Fault enumeration: for each generated history (<= 6 operations of the C08 machine) a fault-free dry run counts the events (allocations, element default/copy/move "
                "constructions, element copy/move assignments); the history is then re-run once per injection point k (all k when there are at most 12, else a spread sample of 12; the "
                "thorough tier uses all k up to 400) with event k throwing. The exception must reach the harness; every array must then be valid (extents agree with its live elements and its "
                "block; readable; assignable by the rest of the history; destructible), nothing may leak or be released twice, a failed constructor leaves nothing behind, and operations that "
                "need no new storage do not allocate. Two recorded known findings are tolerated by their exact symptom and counted."),
    technique="fault injection at every enumerated event of generated histories, registry/ledger oracle (rapidcheck)",
    rule=("case = D in 1..3 + up to 6 history records; evaluations = generated histories, each re-run at its injection points (counters fault_runs / faults_propagated_to_caller); "
          "non-trivial = at least one injected fault propagated to the caller; distinct = hash of decoded history text incl. the injection points"),
    assumptions=COMMON_ASSUME[:1] + ["events caused by the harness itself (argument temporaries, e.g. the backing arrays of initializer lists) are not faulted: g++ 12 and clang 14 do not destroy already built backing-array temporaries when a nested braced list throws while being materialised",
                 "known findings tolerated by symptom (see known_findings.txt): block leak when an element throws inside a constructor; rows not rolled back in iterator-pair / nested-list construction for D >= 2"],
)

PROPS["C10"] = dict(
    targets=[dict(name="C10", src="vp/props/C10.cpp", maxlen=3 + 8*8)],
    quick=dict(cases=5000, floor=40000),
    thorough=dict(cases=50000, floor=400000, fuzz=dict(time=300)),
    level="exploration",
    level_text=("Stateful testing over allocator configurations: the eight propagate_on_container_{copy_assignment,move_assignment,swap} combinations of a stateful observing allocator "
                "(instance ids 1/2 per pool slot, generated), an always-equal variant, and pmr arrays on two tracking memory resources plus a tracking default resource; generated histories "
                "of plain and allocator-extended copy/move construction, copy/move assignment, assignment from views, lists and ranges, swap, reextent. After every step get_allocator() has "
                "the identity the container requirements prescribe, every array's block was produced by its own allocator, and every deallocate happens on an allocator equal to the allocating "
                "one (per-instance ledger). Bounded exploration."),
    technique="stateful testing over generated allocator-trait configurations with a per-instance allocation ledger and an allocator-identity model (rapidcheck + libFuzzer)",
    rule=("case = configuration (11 variants) x allocator ids of the 4 slots + up to 8 history records; oracle = identity model (select_on_container_copy_construction on copy construction, "
          "replacement exactly per trait on copy/move assignment and swap, supplied allocator for allocator-extended constructors) + ledger. swap between unequal non-propagating allocators is "
          "UB for every standard container and excluded (counted). non-trivial = slots with unequal allocators and >= 2 operations; distinct = hash of decoded history text"),
    assumptions=COMMON_ASSUME[:1] + ["assignments that build an internal temporary (initializer list, iterator pair, view/convertible array of other extents) may leave the temporary's default-constructed allocator when propagate_on_container_move_assignment is true; no trait covers these assignments, both outcomes are accepted and the storage must agree with the reported allocator",
                 "allocator-extended move construction with an unequal allocator (pmr arrays on two resources included) must move the elements into storage of the given allocator and leave the source empty"],
)

PROPS["C05"] = dict(
    targets=[dict(name="C05", src="vp/props/C05.cpp", maxlen=13 + 4*6)],
    quick=dict(cases=4000, floor=32000),
    thorough=dict(cases=40000, floor=300000, fuzz=dict(time=360)),
    level="exploration",
    level_text=("Generated destination views (C01 generator over mutable roots with known contents; array_ref roots carry ASan-poisoned guard zones) and shape-matched sources built by construction "
                "in nine layouts (plain, transposed, rotated, reversed dimension order, padded block, padded block of transposed storage, strided, inner-strided, array / array<long>); eleven assignment forms (view<-view on lvalue and rvalue destination, <-array, <-convertible "
                "element type, elements()<-elements(), fill, swap of two views, initializer list, element_moved(), assign(iterator)); the whole root is compared afterwards: exactly the model "
                "positions of the destination hold the source values in logical order, everything else is untouched, the root was neither rebound nor resized, the source is unchanged (or exactly "
                "moved-from, observed with an instrumented element). Bounded exploration."),
    technique="model-based testing: generated destination/source view pairs, whole-buffer before/after oracle from the index-mapping model (rapidcheck + libFuzzer)",
    rule=("case = element {int (3/4), Tracked} x root kind {array, static_array, array_ref} x D in 1..3 x extents 0..7 + up to 6 view operations (mutable value categories only) + form + source layout; "
          "non-trivial = destination has >= 2 elements, the form copies from a source, and source or destination is not compact row-major; distinct = hash of decoded case text"),
    assumptions=COMMON_ASSUME + ["destinations that the generator leaves read-only (e.g. reversed() returns a const view on the pinned tree) are counted and skipped: const-ness is C16's subject",
                 "zero-element destinations are exercised with fill / elements() only (the equal-extents premise cannot be constructed for collapsed shapes)",
                 "fill(value) on views of dimensionality >= 2 does not instantiate on the pinned tree and is exercised for 1-D views only"],
)

PROPS["C03"] = dict(
    targets=[dict(name="C03", src="vp/props/C03.cpp", maxlen=15 + 4*5)],
    quick=dict(cases=4000, floor=32000),
    thorough=dict(cases=40000, floor=300000, fuzz=dict(time=300)),
    level="exploration",
    level_text=("Differential testing: one of the 20 listed standard algorithms is applied to the begin()/end() range (element iterators for 1-D views, proxy rows for 2-D views) or the elements() "
                "range of a generated view over data with duplicates, and to a std::vector of independent values (ints, or vectors for rows); results, returned positions and -- where the "
                "standard leaves freedom -- post-conditions are compared, the complement of the view in the root buffer must be unchanged; two-range algorithms use a second view of equal shape "
                "and a different layout. Bounded exploration."),
    technique="differential testing of standard algorithms on generated views vs independent std::vector values (rapidcheck + libFuzzer)",
    rule=("case = root kind x D in 1..3 x extents 0..7, data from a 16-letter alphabet (4 comparison keys x 4 tags, so stability is observable) + up to 5 view operations (final rank <= 3) + algorithm + "
          "range kind + parameters (middle, nth, threshold, value); oracle = same algorithm on the model sequence (sort, stable_sort(comp), rotate, reverse, unique, remove, copy, copy_backward, move, "
          "swap_ranges, fill, transform, find, equal, is_sorted, accumulate, lexicographical_compare: exact; partial_sort: sorted prefix + permutation; nth_element, partition, sort(comp): "
          "post-condition + permutation); non-trivial = range length >= 3, duplicates present, and the view is non-contiguous or the range yields proxy rows; distinct = hash of decoded case text"),
    assumptions=COMMON_ASSUME + ["proxy-row ranges are exercised for views of rank 2 and 3 (rows are sub-views of rank 1 and 2)", "views with zero elements but a non-zero number of rows are skipped (collapsed shapes)"],
)

PROPS["C12"] = dict(
    targets=[dict(name="C12int", src="vp/props/C12.cpp", defs=["VP_C12_T=0"], libs=["-lopenblas"], maxlen=12 + 4*5),
             dict(name="C12struct", src="vp/props/C12.cpp", defs=["VP_C12_T=1"], libs=["-lopenblas"], maxlen=12 + 4*5),
             dict(name="C12complex", src="vp/props/C12.cpp", defs=["VP_C12_T=2"], libs=["-lopenblas"], maxlen=12 + 4*5)],
    quick=dict(cases=4000, floor=32000),
    thorough=dict(cases=40000, floor=300000, fuzz=dict(time=240)),
    level="exploration",
    level_text=("Generated source views (C01 generator over mutable roots of int, a struct {int a; short b; short c;} and std::complex<double>) and a generated projection: element_transformed "
                "with a value-returning function (checked again after mutating the source: laziness; composed with rotated(); converted to an array), with a reference-returning function (write "
                "through, nothing else changes), with a pointer to member; static_array_cast<T const> and const_array_cast<T> back (identity of every element, write-through); as_const; member_cast of two members (value and address of every element, after mutation, "
                "composed with rotated()); same-size reinterpret_array_cast; reinterpret_array_cast<U>(n) with the trailing dimension over each element's own bytes (const&, & and && "
                "overloads); blas::real / blas::imag (value and aliasing); array{view} and array<long>{view}. Every index tuple is compared with f(source element at the model position), and the same elements are reached through the view's other access paths (leading-dimension iterators forwards and backwards, front/back, it -= n, end() - n, every row, elements() in both directions)."),
    technique="model-based testing of projection views over generated source views: f(source element at the index-mapping model position) as oracle (rapidcheck + libFuzzer)",
    rule=("case = element type (one harness per type, workers split evenly) x root kind x D in 1..3 x extents 0..7 + up to 5 view operations + projection; non-trivial = source view not compact "
          "row-major with >= 2 elements; distinct = hash of decoded case text"),
    assumptions=COMMON_ASSUME + ["sources are views of mutable roots, read-only flavours are reached through std::as_const(view) (as in the repository's tests): views whose element pointer is pointer-to-const do not instantiate several casts on the pinned tree",
                 "blas::real/imag are applied to mutable view types only (they do not instantiate for read-only view types such as the result of reversed())", "arrays with zero elements are skipped (the casts offset or dereference the null data pointer: null-root family)",
                 "element_transformed is given temporary functors (an lvalue functor deduces a reference type that transform_ptr cannot store)"],
)

PROPS["C11"] = dict(
    targets=[dict(name="C11views", src="vp/props/C11.cpp", defs=["VP_C11_PROGRAM=1"], maxlen=13 + 4*10),
             dict(name="C11iters", src="vp/props/C11.cpp", defs=["VP_C11_PROGRAM=2"], maxlen=13 + 4*10),
             dict(name="C11containers", src="vp/props/C11m.cpp", maxlen=2 + 8*10),
             dict(name="C11assign", src="vp/props/C11.cpp", defs=["VP_C11_PROGRAM=3"], maxlen=13 + 4*10),
             dict(name="C11compare", src="vp/props/C11.cpp", defs=["VP_C11_PROGRAM=4"], maxlen=13 + 4*10),
             dict(name="C11algorithms", src="vp/props/C11.cpp", defs=["VP_C11_PROGRAM=5"], maxlen=15 + 4*5)],
    quick=dict(cases=2500, floor=20000),
    thorough=dict(cases=30000, floor=200000, fuzz=dict(time=240)),
    level="exploration",
    level_text=("Differential/configuration testing: the generated programs of C01 (view algebra, all access paths), C02 (iterator, elements() and cursor laws) and the C04/C06 state machine "
                "(value semantics, reextent, assign), of C05 (assignment through views; sources over the same pointer family or over raw pointers) and of C07 (equality and ordering; second operand over the same family or over raw pointers) and of C03 (standard algorithms on elements() and 1-D ranges; second ranges over the same family or over raw pointers) are instantiated over two user-defined pointer types -- off_ptr (offset from an unrelated base, explicit construction only, no conversion to or "
                "from T*, T& references) reached through an allocator and through array_ref, and chk_ptr (block id + offset with provenance: every dereference is checked against the liveness and "
                "bounds of its block, arithmetic across blocks is recorded). The C01 program is also run over raw pointers on the same input and the transcripts of observable results (sizes, "
                "relative positions, values) must be identical; all programs keep their model oracles; chk_ptr must record no violation."),
    technique="differential testing of generated programs across pointer families (raw / offset / bounds-checking) with transcript equality and a checking pointer as oracle (rapidcheck + libFuzzer)",
    rule=("case = pointer family bit + the generated case of the replayed program (C01: up to 10 view operations; C02: up to 8; containers: up to 10 history records over 4 arrays of int, D in 1..3; C05: up to 6 view operations + assignment form + source layout; C07: operand triples of D in 1..3); "
          "non-trivial = as in the replayed program; distinct = hash of decoded case text"),
    assumptions=COMMON_ASSUME + ["the C03 program (standard algorithms) is replayed over fancy pointers on elements() ranges and 1-D begin()/end() ranges only: the value_type of a proxy-row iterator over a fancy pointer is an array over the pointer's default_allocator_type (std::allocator for the harness' pointers) and ordering operators between operands of different pointer families are not offered by the library, so sort & co. on proxy rows do not instantiate there", "allocators with fancy *references* (proxy references) are out of scope"],
)

PROPS["C20"] = dict(
    targets=[dict(name="C20default", src="vp/props/C20pos.cpp", maxlen=13 + 8*8),
             dict(name="C20ndebug", src="vp/props/C20pos.cpp", defs=["NDEBUG"], maxlen=13 + 8*8, same_seed_as="C20default"),
             dict(name="C20assertdisable", src="vp/props/C20pos.cpp", defs=["BOOST_MULTI_ASSERT_DISABLE"], maxlen=13 + 8*8, same_seed_as="C20default"),
             dict(name="C20negative", src="vp/props/C20neg.cpp", maxlen=13 + 4*5, kinds=["rc"])],
    quick=dict(cases=2000, floor=16000),
    thorough=dict(cases=25000, floor=180000, fuzz=dict(time=240)),
    level="exploration",
    level_text=("Positive half: the generated programs of C01, C02, the C04/C06 state machine and the C06 program on re-based arrays are built three times (assertions on, -DNDEBUG, -DBOOST_MULTI_ASSERT_DISABLE) and run on the "
                "same seeds against the same model oracles: a library assertion on a valid program aborts the default build, a result that depends on the configuration fails the oracle in one "
                "build (additionally every other check of this suite runs assertion-enabled). Negative half: generated views x an index out of range at a generated depth of chained [] or of "
                "call syntax, and generated destination views x sources whose extents differ in one dimension (leading or inner, or inner extents swapped with equal element count) for view=view "
                "(lvalue / rvalue destination x lvalue / rvalue / const source), view=array and elements()=elements(), on zero-based and on re-based roots (where an index below the first valid index is not negative); each case runs in a forked child of the assertion-enabled build and must die by SIGABRT with "
                "an assertion message from a file under include/boost/multi, before any sanitizer report."),
    technique="configuration-differential testing of generated valid programs + generated death tests in forked children (rapidcheck; libFuzzer for the positive half)",
    rule=("positive: case = program selector + the case of that program (workers are split over the four harnesses; the three positive builds receive identical seeds); negative: case = root x D in 1..3 + "
          "up to 5 view operations + kind of violation + depth/amount; non-trivial = positive: as in the replayed program; negative: the view was produced by >= 2 operations and the destination is a "
          "mutable view; distinct = hash of decoded case text"),
    assumptions=COMMON_ASSUME + ["cursors (home()) and elements()[k] are documented as unchecked and are not in the negative domain", "slicing / dropped / taked with out-of-range arguments are not in the must-assert set (the property speaks of indexing and assignment; 1-D sliced carries no bounds assertion)",
                 "empty views are skipped in the negative half"],
)

PROPS["C13"] = dict(
    targets=[dict(name="C13double", src="vp/props/C13.cpp", defs=["VP_C13_T=0"], libs=["-lopenblas"], kinds=["rc"]),
             dict(name="C13complex", src="vp/props/C13.cpp", defs=["VP_C13_T=1"], libs=["-lopenblas"], kinds=["rc"]),
             dict(name="C13float", src="vp/props/C13.cpp", defs=["VP_C13_T=2"], libs=["-lopenblas"], kinds=["rc"]),
             dict(name="C13cfloat", src="vp/props/C13.cpp", defs=["VP_C13_T=3"], libs=["-lopenblas"], kinds=["rc"])],
    quick=dict(cases=4000, floor=32000),
    thorough=dict(cases=20000, floor=150000),
    level="exploration",
    level_text=("Differential testing against naive loops on exact (small-integer) data: operation x form x element type x per-operand layout x scalars are generated; every matrix operand is "
                "independently row- or column-major, optionally a padded sub-block of a larger parent filled with a sentinel, wrapped in N/T/J/H; vectors have stride 1..3, are rows or columns "
                "of a parent, optionally conjugated. Each case runs in a forked child (OPENBLAS_NUM_THREADS=1) and must end in: result equals the mathematical definition, every parent cell "
                "outside the output view unchanged, inputs unchanged; or a clean rejection (C++ exception or library assertion). A wrong result, a write outside the output, a sanitizer report or "
                "a crash is a violation. Combinations the README lists as supported but that are rejected are counted, not failed."),
    technique="differential testing against a naive reference on generated operand layouts, each case in a forked child with accepted/rejected/wrong classification (rapidcheck)",
    rule=("case = operation {gemm in-place / lazy (=, +=, array construction), gemv in-place / lazy, dot (+dot, conversion, result argument), axpy (in-place, +=, -=), scal, copy (in-place, lazy), swap, "
          "nrm2, asum, iamax, herk (complex<double>), syrk, trsm (side x filling, A and B each plain / transposed / conjugated / hermitian)} + sizes 0..5 + layouts + alpha, beta in {0, 1, -1, 2, i, 3-2i}; one harness per element type {double, "
          "complex<double>, float, complex<float>}, workers split evenly; non-trivial = accepted, a matrix operand padded or wrapped or a vector strided/conjugated, sizes >= 2 where relevant; "
          "distinct = hash of decoded case text"),
    assumptions=COMMON_ASSUME[:1] + ["OpenBLAS 0.3.21 as BLAS implementation", "forms that do not instantiate on the pinned tree are replaced by the form that does and noted: lazy asum / iamax(range) -> asum(x, res) / iamax(first, last); y += axpy(a, x) needs a const x; syrk needs an owning array as output; herk with views only for complex<double>; in-place gemm and herk do not compile for complex<float> (core.hpp compares *beta with 0.0) and are excluded there; dot(C(x), C(y)) is a compile-time rejection",
                 "empty operands are blocks of a non-empty parent (an array without elements has a null data pointer)", "excluded and counted (recorded known findings): level-3 operations with an extent equal to 1; gemv / dot with an empty inner dimension; herk of H(a) with contiguous rows",
                 "nrm2 and trsm are compared with a tolerance of a few ulps scaled by the size; everything else exactly"],
)

PROPS["C14"] = dict(
    targets=[dict(name="C14potrf", src="vp/props/C14.cpp", defs=["VP_C14_R=0"], libs=["-llapack", "-lopenblas"], kinds=["rc"]),
             dict(name="C14geqrf", src="vp/props/C14.cpp", defs=["VP_C14_R=1"], libs=["-llapack", "-lopenblas"], kinds=["rc"]),
             dict(name="C14gesvd", src="vp/props/C14.cpp", defs=["VP_C14_R=2"], libs=["-llapack", "-lopenblas"], kinds=["rc"])],
    quick=dict(cases=5000, floor=40000),
    thorough=dict(cases=50000, floor=400000),
    level="exploration",
    level_text=("Generated inputs per routine with a reconstruction oracle: potrf (double and complex<double>): A = M M^H + n I from small integers, optionally with a planted non-positive leading "
                "minor, n in 1..6, both fillings, row- or column-major view, padded sub-block, the unselected triangle filled with a sentinel: the returned block has the order of the first "
                "non-positive minor - 1 (or n), the factor reproduces the selected triangle of that block within 64 eps n |A|, the other triangle and the padding are untouched. geqrf: m, n in 1..6 and, one case in four, very elongated (40..170 x 1..3, both orientations), "
                "padded: Q (rebuilt from the reflectors and tau) times R reconstructs the Fortran view of the input. gesvd (argument form on padded views, functional form on an array): U, VT "
                "orthogonal, s >= 0 descending, A = U diag(s) VT, padding untouched, const input unchanged."),
    technique="generated inputs with reconstruction-residual oracles and sentinel guards (rapidcheck)",
    rule=("case = routine (one harness each, workers split evenly) x sizes x filling x orientation x padding x data seed; non-trivial = sizes >= 2 and (column-major, padded, rectangular or a planted "
          "non-positive minor); distinct = hash of decoded case text"),
    assumptions=COMMON_ASSUME[:1] + ["reference LAPACK 3.11 / OpenBLAS as installed", "gesvd: the fourth argument is V transposed (its template parameter is VTArray2D; U S VV reconstructs the input, U S VV^T does not)",
                 "syev.hpp does not compile on the pinned tree (known finding), getrf is not claimed by the property"],
)

PROPS["C15"] = dict(
    targets=[dict(name="C15", src="vp/props/C15.cpp", libs=["-lfftw3"], maxlen=12)],
    quick=dict(cases=2500, floor=20000),
    thorough=dict(cases=50000, floor=400000, fuzz=dict(time=240)),
    level="exploration",
    level_text=("Differential testing against a direct (separable, O(N n_d)) evaluation of the unnormalised DFT: D in 1..4, extents from {1..6, 8, 16, 25, 30, 36, 48} (at most 1500 elements), all 2^D masks of transformed dimensions, both signs, input and "
                "output independently realised as contiguous view, transposed storage, rotated storage, padded sub-block, strided view, view with a non-unit stride in the last dimension, reversed dimension order or a padded block of transposed storage; out-of-place through dft / dft_forward / dft_backward (input passed as a const view or as the named mutable view, mask as a named std::array) and "
                "the in-place overload. The result matches within 1e-10 N max|x|; a distinct input's whole parent storage is bit-identical afterwards; every parent cell outside the output view is "
                "unchanged; transforming back multiplies every element by the number of transformed points; every case then runs the other placement (in place <-> out of place) of the same geometry right away, which must be equally correct; half of the out-of-place cases also build a fftw::plan object and execute it twice, on the planned arrays and on a second pair of arrays of the same layouts."),
    technique="differential testing against a direct DFT on generated layouts and dimension masks, whole-parent guard comparison (rapidcheck + libFuzzer)",
    rule=("case = D x extents x mask x sign x input layout x output layout (or in-place) x front end x data seed; non-trivial = >= 2 elements, >= 2 transformed points and (a proper subset of the "
          "dimensions is transformed or a layout is not contiguous); distinct = hash of decoded case text"),
    assumptions=COMMON_ASSUME[:1] + ["FFTW 3.3.10 double precision; extents up to 48, at most 1500 elements (size 0 is outside FFTW's domain)", "in-place use is through the dedicated overload on one view; aliasing views of different layouts are not generated"],
)

PROPS["C17"] = dict(
    targets=[dict(name="C17", src="vp/props/C17.cpp", libs=["-lboost_serialization"], maxlen=12)],
    quick=dict(cases=5000, floor=40000),
    thorough=dict(cases=50000, floor=400000, fuzz=dict(time=240)),
    level="exploration",
    level_text=("Round-trip testing through real Boost.Serialization text, binary and XML archives against the generating (extents, values) model, never the library's own ==: owning arrays of "
                "int (D 0..4), double (D 2), std::string (D 1,2) and nested array<int,1> elements (D 1), extents 0..4 per dimension, optional non-zero index origins, loading array previously "
                "empty / same extents / different extents; the loaded array must report the saved sizes and index ranges and hold the saved values in canonical order, and saving must not modify the source. "
                "Views (contiguous, transposed / rotated / reversed storage, padded block (also of transposed storage), strided in the first or in the last dimension, array_ref; D 1..3): the archive of a view is byte-identical to the archive of a contiguous view holding the "
                "same elements, loading it into a view of another layout puts the k-th saved value in the k-th element, and every parent cell outside the destination view is unchanged."),
    technique="round-trip property testing through text/binary/XML archives against an (extents, values) model with whole-parent guard comparison for views (rapidcheck + libFuzzer)",
    rule=("case = kind (array element type x D | view D) x extents x archive x prior state / layouts x data seed; non-trivial = >= 2 elements (for view cases additionally a non-contiguous layout on "
          "either side); distinct = hash of decoded case text"),
    assumptions=COMMON_ASSUME[:1] + ["Boost.Serialization 1.74 archives (Cereal is not installed)", "an array_ref is archived as one flat block and is therefore loaded back into an array_ref only; all other view layouts interchange",
                                     "array<T,0> loading targets are value-constructed because its default constructor does not compile with assertions enabled"],
)

_MPI_INC = ["-I/usr/lib/x86_64-linux-gnu/openmpi/include", "-I/usr/lib/x86_64-linux-gnu/openmpi/include/openmpi"]
_MPI_LIB = ["-L/usr/lib/x86_64-linux-gnu/openmpi/lib", "-lmpi"]
PROPS["C18"] = dict(
    targets=[dict(name="C18i", src="vp/props/C18.cpp", defs=["VP_C18_T=0"], flags=_MPI_INC, libs=_MPI_LIB, maxlen=52),
             dict(name="C18d", src="vp/props/C18.cpp", defs=["VP_C18_T=1"], flags=_MPI_INC, libs=_MPI_LIB, maxlen=52),
             dict(name="C18ib", src="vp/props/C18.cpp", defs=["VP_C18_T=0", "VP_C18_BASED=1"], flags=_MPI_INC, libs=_MPI_LIB, maxlen=52)],
    quick=dict(cases=2500, floor=20000),
    thorough=dict(cases=40000, floor=300000, fuzz=dict(time=240)),
    level="exploration",
    level_text=("Single-process differential testing of the MPI adaptor against the view model of C01: a root array / static_array / array_ref (const or not, D 1..4) is turned into a view by a generated "
                "sequence of C01's view-forming operations; the (buffer, count, datatype) triple obtained through each front end (message(elements()), message{base, layout, dt}, skeleton(layout, dt), "
                "skeleton<T>(layout), skeleton(elements().layout(), dt), create_subarray, message(base, skeleton&&), data(iterator) for unit-stride 1-D views) is handed to the real MPI_Pack: the packed "
                "bytes must be exactly the model's elements in canonical order (root cells carry their own position, so an element outside the view is visible). The same message is then transferred, by "
                "MPI_Pack+MPI_Unpack or MPI_Sendrecv on MPI_COMM_SELF, to or from a partner view of the same element count but another rank and layout (contiguous, transposed / rotated storage, padded "
                "block, strided, array_ref): the k-th element must arrive at the k-th element and every other cell of the receiving parent storage must be unchanged. All MPI datatype calls are interposed "
                "(PMPI): a datatype must be committed before MPI sees it in a buffer description, must not be used or freed after being freed, and every created datatype is freed when the message dies. "
                "Element types int and double; a third harness replays the int programs on roots with non-zero index bases and with reindexed / blocked among the operations."),
    technique="model-based differential testing of MPI datatypes through real MPI_Pack/Unpack/Sendrecv on generated views, PMPI datatype-lifecycle ledger (rapidcheck + libFuzzer)",
    rule=("case = root kind x D x extents x view-forming operation sequence x front end x partner (rank, extents, layout, front end) x direction x transport; non-trivial = the view has >= 2 elements and "
          "is not a contiguous 1-D range; distinct = hash of decoded case text"),
    assumptions=COMMON_ASSUME[:1] + ["Open MPI 4.1 singleton (no mpirun), MPI_COMM_SELF; two-rank communication is not exercised: Pack/Unpack and self-Sendrecv interpret the same (buffer, count, datatype) triple",
                                     "views with zero elements are skipped (no message to check); data(iterator) is exercised for unit-stride 1-D views only: its datatype carries no stride extent and the repository's own mpi.cpp pins that behaviour",
                                     "MPI element types int and double (float is mapped too and differs only in the predefined datatype)"],
)

PROPS["C16"] = dict(
    custom="c16", targets=[],
    quick=dict(depth=2, random=6000, floor=30000),
    thorough=dict(depth=3, random=60000, floor=800000),
    level="exploration",
    engine="generated-program harness",
    level_text=("Generated access-path programs with a compile-time oracle. A type-level model of the interface (kind of object, dimensionality, expected constness, applicability of each step) generates "
                "paths from 10 kinds of root (array, static_array, array_ref, each const and not; views held by auto&& and auto const& of a mutable and of a const array) for D 1..3 out of indexing, "
                "front/back, call syntax (indices, ranges, _, ALL in every position), begin/end/cbegin/cend, *, it[n], elements() and its iterators, home() cursors, std::as_const / std::move and 19 "
                "view-forming operations: bounded-exhaustively to depth 2 (quick) or 3 (thorough) plus seeded random paths four steps deeper. Phase 1 instantiates every path on its root type with the "
                "real compiler and follows every observer of the resulting object (chained [], *, operator-> of iterators and sub-array pointers, begin(), elements(), home(), front(), operator()()) down to element references: none may be "
                "modifiable at the end of a read-only path (nor base()/data_elements() of an array or view point to non-const), one must be modifiable at the end of a mutable path. Phase 2 builds and "
                "links real statements (assignment from an array, from an lvalue / rvalue of the same type, swap, member swap, fill, elements() assignment) for every distinct type found at the end of a "
                "read-only path: none may build; assignment from an array must build for the types at the end of mutable paths; a named object of a view or array_ref type must not be copy-constructible."),
    technique="grammar-based generation of access-path programs (bounded-exhaustive + seeded random), compiler-as-oracle differential between the const and the mutable twin of each path, step-deletion shrinking",
    level_note=("trusted base: clang++ 14, the type-level model in py/c16.py (it decides applicability and expected constness of each step) and the observer probe vp/c16_probe.hpp; element type int; "
                "no claim beyond the generated paths"),
    rule=("case = root kind x D x sequence of steps; evaluations = paths instantiated + phase-2 statement builds; non-trivial = a path of >= 2 steps that instantiates; distinct = path text"),
    assumptions=["element type int, default pointer and layout types, D 1..3 at the root (up to 4 after partitioned/chunked)",
                 "base() of iterators, cursors and element ranges is not an access-path operation of the property and is not asserted (const iterators of D >= 2 do return a pointer to non-const from base())",
                 "paths the library does not offer for a root (e.g. blocked() on a temporary 1-D view) are counted as not instantiable, not as violations",
                 "mutable paths through operations recorded in known_findings.txt as returning read-only views from mutable sources are excluded from the mutable half by construction and counted"],
)
