// vp/views.hpp — reference model of a strided view and the generated-program interpreter shared by
// C01, C02, C05, C11, C12, C18, C19, C20.
//
// Model:  a view over a root buffer of N elements is (offset, [(first_d, size_d, stride_d)]_d) in units of root
// elements; the element at ordinals (o_0..o_k) (index first_d + o_d) lives at root position offset + sum o_d*stride_d.
#pragma once

#include "core.hpp"

#include <boost/multi/array.hpp>

#include <numeric>
#include <tuple>
#include <utility>

namespace vp {

namespace multi = boost::multi;

struct Dim { long first, size, stride; };

struct Model {
	long offset = 0;
	std::vector<Dim> d;
	int D() const { return static_cast<int>(d.size()); }
	long nelems() const { long n = 1; for(auto const& x : d) { n *= x.size; } return n; }
	bool empty() const { return nelems() == 0; }
	long pos(long const* ord) const { long p = offset; for(std::size_t k = 0; k < d.size(); ++k) { p += ord[k]*d[k].stride; } return p; }
	void print(Txt& t) const {
		t << "{off=" << offset;
		for(auto const& x : d) { t << " [" << x.first << "+" << x.size << " *" << x.stride << "]"; }
		t << "}";
	}
	// contiguity class used for labels
	bool compact_rowmajor() const {
		long exp = 1;
		for(int k = D() - 1; k >= 0; --k) { if(d[static_cast<std::size_t>(k)].size > 1 && d[static_cast<std::size_t>(k)].stride != exp) { return false; } exp *= d[static_cast<std::size_t>(k)].size; }
		return true;
	}
};

template<class P> auto raw_ptr(P const& p) { return p.raw(); }
template<class T> T* raw_ptr(T* p) { return p; }

// ------------------------------------------------------------------------------------------------------------------
// element access by ordinals through the different access paths
template<class V> constexpr int rank_of = static_cast<int>(std::decay_t<V>::rank_v);

template<class V>
auto addr_chain(V&& v, long const* idx) {  // v[i0][i1]...
	if constexpr(rank_of<V> == 1) { return std::addressof(v[idx[0]]); }
	else { return addr_chain(v[idx[0]], idx + 1); }
}
template<class C, int D>
auto addr_cursor(C&& c, long const* ord, std::integral_constant<int, D>) {  // home()[o0][o1]...
	if constexpr(D == 1) { return std::addressof(c[ord[0]]); }
	else { return addr_cursor(c[ord[0]], ord + 1, std::integral_constant<int, D - 1>{}); }
}
template<int D, std::size_t... I>
auto idx_tuple(long const* idx, std::index_sequence<I...>) { return std::make_tuple(static_cast<multi::index>(idx[I])...); }
template<int D, std::size_t... I>
auto idx_mtuple(long const* idx, std::index_sequence<I...>) { return multi::detail::tuple<decltype(static_cast<multi::index>(idx[I]))...>{static_cast<multi::index>(idx[I])...}; }
template<int D, std::size_t... I>
auto idx_array(long const* idx, std::index_sequence<I...>) { return std::array<multi::index, static_cast<std::size_t>(D)>{{static_cast<multi::index>(idx[I])...}}; }

// read the library-reported shape into arrays (the library's own tuple type: use ADL get)
template<class Tup, std::size_t... I> void tup_to_longs(Tup const& t, long* out, std::index_sequence<I...>) {
	using std::get;
	((out[I] = static_cast<long>(get<I>(t))), ...);
}
template<class V> void lib_sizes(V const& v, long* out) { tup_to_longs(v.sizes(), out, std::make_index_sequence<static_cast<std::size_t>(rank_of<V>)>{}); }
template<class V> void lib_strides(V const& v, long* out) { tup_to_longs(v.strides(), out, std::make_index_sequence<static_cast<std::size_t>(rank_of<V>)>{}); }
template<class Tup, std::size_t... I> void ext_to_longs(Tup const& t, long* first, long* last, std::index_sequence<I...>) {
	using std::get;
	((first[I] = static_cast<long>(get<I>(t).first()), last[I] = static_cast<long>(get<I>(t).last())), ...);
}
template<class V> void lib_extensions(V const& v, long* first, long* last) { ext_to_longs(v.extensions().base(), first, last, std::make_index_sequence<static_cast<std::size_t>(rank_of<V>)>{}); }

// odometer over ordinals of a model; returns false when done
inline bool next_ord(Model const& m, long* ord) {
	for(int k = m.D() - 1; k >= 0; --k) {
		if(++ord[k] < m.d[static_cast<std::size_t>(k)].size) { return true; }
		ord[k] = 0;
	}
	return false;
}

// ------------------------------------------------------------------------------------------------------------------
// shape check after every operation (cheap) — also re-synchronises the model for zero-element views,
// whose reported extents the library derives from (stride, offset, nelems) and documents only loosely.
template<class V>
void check_shape(V const& v, Model& m, char const* after) {
	constexpr int D = rank_of<V>;
	VP_CHECK(m.D() == D, "harness/rank", "model rank " << m.D() << " vs static rank " << D << " after " << after);
	long sz[D]; lib_sizes(v, sz);
	long f[D], l[D]; lib_extensions(v, f, l);
	long st[D]; lib_strides(v, st);
	long prod = 1; for(int k = 0; k < D; ++k) { prod *= sz[k]; }
	VP_CHECK(static_cast<long>(v.size()) == sz[0], "shape/size", "size()=" << v.size() << " but get<0>(sizes())=" << sz[0] << " after " << after);
	VP_CHECK(v.is_empty() == (v.size() == 0), "shape/is_empty", "is_empty()=" << v.is_empty() << " size()=" << v.size() << " after " << after);
	for(int k = 0; k < D; ++k) {
		VP_CHECK(l[k] - f[k] == sz[k], "shape/extension", "extension " << k << " is [" << f[k] << "," << l[k] << ") but size is " << sz[k] << " after " << after);
	}
	VP_CHECK(static_cast<long>(v.extension().first()) == f[0] && static_cast<long>(v.extension().last()) == l[0], "shape/extension0", "extension() disagrees with extensions() after " << after);
	if(m.empty()) {
		VP_CHECK(static_cast<long>(v.num_elements()) == 0, "shape/num_elements", "model has 0 elements, library reports " << v.num_elements() << " after " << after);
		VP_CHECK(prod == 0, "shape/sizes", "model has 0 elements but product of sizes() is " << prod << " after " << after);
		for(int k = 0; k < D; ++k) { m.d[static_cast<std::size_t>(k)] = Dim{f[k], sz[k], st[k]}; }  // resync (see DESIGN 3.1)
		return;
	}
	VP_CHECK(static_cast<long>(v.num_elements()) == m.nelems(), "shape/num_elements", "num_elements()=" << v.num_elements() << " model " << m.nelems() << " after " << after);
	for(int k = 0; k < D; ++k) {
		auto const& x = m.d[static_cast<std::size_t>(k)];
		VP_CHECK(sz[k] == x.size, "shape/sizes", "dim " << k << ": sizes()=" << sz[k] << " model " << x.size << " after " << after);
		VP_CHECK(f[k] == x.first, "shape/extensions", "dim " << k << ": first index " << f[k] << " model " << x.first << " after " << after);
		if(x.size > 1) { VP_CHECK(st[k] == x.stride, "shape/strides", "dim " << k << ": stride " << st[k] << " model " << x.stride << " after " << after); }
	}
	// the same shape through the other observers: leading stride(), the layout object's own observers and extension(k), the free num_elements()
	if(m.d[0].size > 1) { VP_CHECK(static_cast<long>(v.stride()) == m.d[0].stride, "shape/stride0", "stride()=" << v.stride() << " model " << m.d[0].stride << " after " << after); }
	auto const& ly = v.layout();
	VP_CHECK(static_cast<long>(ly.num_elements()) == m.nelems(), "shape/layout_num_elements", "layout().num_elements()=" << ly.num_elements() << " model " << m.nelems() << " after " << after);
	VP_CHECK(static_cast<long>(ly.size()) == m.d[0].size, "shape/layout_size", "layout().size()=" << ly.size() << " model " << m.d[0].size << " after " << after);
	VP_CHECK(!ly.is_empty(), "shape/layout_is_empty", "layout().is_empty() on a view with " << m.nelems() << " elements after " << after);
	VP_CHECK(static_cast<long>(num_elements(v)) == m.nelems(), "shape/free_num_elements", "num_elements(v)=" << num_elements(v) << " model " << m.nelems() << " after " << after);
	for(int k = 0; k < D; ++k) {
		auto const xk = ly.extension(static_cast<multi::dimensionality_type>(k));
		VP_CHECK(static_cast<long>(xk.first()) == f[k] && static_cast<long>(xk.last()) == l[k], "shape/extension_k", "layout().extension(" << k << ")=[" << xk.first() << "," << xk.last() << ") but extensions() has [" << f[k] << "," << l[k] << ") after " << after);
	}
}

// full element check: four access paths, address == model position == value, inside [0,N)
template<class V, class T>
void check_elements(V&& v, Model const& m, T const* root, long N, Ctx& ctx, char const* after) {
	constexpr int D = rank_of<V>;
	if(m.empty()) { return; }
	long ord[D] = {}; long idx[D];
	long st[D]; lib_strides(v, st);
	auto const* a0 = static_cast<T const*>(nullptr);
	long cnt = 0;
	do {
		for(int k = 0; k < D; ++k) { idx[k] = m.d[static_cast<std::size_t>(k)].first + ord[k]; }
		long want = m.pos(ord);
		VP_CHECK(want >= 0 && want < N, "harness/model_oob", "model position " << want << " outside [0," << N << ") after " << after);
		T const* p1 = addr_chain(v, idx);
		T const* p2 = std::apply([&](auto... is) { return std::addressof(v(is...)); }, idx_tuple<D>(idx, std::make_index_sequence<D>{}));
		T const* p3 = std::addressof(v.apply(idx_array<D>(idx, std::make_index_sequence<D>{})));
		T const* p4 = addr_cursor(v.home(), ord, std::integral_constant<int, D>{});
		long got = p1 - root;
		VP_CHECK(got == want, "elem/position", "v[idx] designates root position " << got << ", model says " << want << " after " << after);
		VP_CHECK(p2 == p1, "elem/call_syntax", "v(i...) at root position " << (p2 - root) << " but v[i]... at " << got << " after " << after);
		VP_CHECK(p3 == p1, "elem/apply", "v.apply(tuple) at root position " << (p3 - root) << " but v[i]... at " << got << " after " << after);
		VP_CHECK(p4 == p1, "elem/cursor", "v.home()[o]... at root position " << (p4 - root) << " but v[i]... at " << got << " after " << after);
		VP_CHECK(static_cast<long>(*p1) == want, "elem/value", "value read " << *p1 << " expected " << want << " after " << after);
		if(cnt == 0) { a0 = p1; }
		long rel = 0; for(int k = 0; k < D; ++k) { rel += st[k]*ord[k]; }
		VP_CHECK(p1 - a0 == rel, "elem/strides", "strides() relation broken: &v[idx]-&v[first]=" << (p1 - a0) << " but sum stride*ordinal=" << rel << " after " << after);
		if(ctx.want_transcript) { Txt t; t << got << ','; ctx.transcript += t.s; }
		++cnt;
	} while(next_ord(m, ord));
	ctx.count("elements_checked", cnt);
}

// ------------------------------------------------------------------------------------------------------------------
// capabilities (DESIGN 3.1): the `const&` overloads of taked/dropped/strided/reversed did not instantiate for D >= 2 on the pinned tree;
// fixed in /repo (known_findings.txt), so they are generated by default; -DVP_CONST_x=0 switches one off again
#ifndef VP_CONST_TAKED
#define VP_CONST_TAKED 1
#endif
#ifndef VP_CONST_DROPPED
#define VP_CONST_DROPPED 1
#endif
#ifndef VP_CONST_STRIDED
#define VP_CONST_STRIDED 1
#endif
#ifndef VP_CONST_REVERSED
#define VP_CONST_REVERSED 1
#endif

enum OpCode { OP_INDEX, OP_SLICED, OP_STRIDED, OP_DROPPED, OP_TAKED, OP_ROTATED, OP_UNROTATED, OP_TRANSPOSED, OP_REVERSED,
              OP_DIAGONAL, OP_PARTITIONED, OP_CHUNKED, OP_FLATTED, OP_CALL, OP_RANGE, OP_TILDE, OP_PAREN0, OP_SLICED3, OP_BRACE, OP_REINDEXED, OP_BLOCKED, NOPS };

inline std::vector<long> divisors(long n) { std::vector<long> r; for(long s = 1; s <= n; ++s) { if(n % s == 0) { r.push_back(s); } } return r; }

// static classification of the view type an operation is applied to
template<class V> struct is_csub : std::false_type {};
template<class T, multi::dimensionality_type D, class P, class L> struct is_csub<multi::const_subarray<T, D, P, L>> : std::true_type {};
template<class V> struct is_owning : std::false_type {};
template<class T, multi::dimensionality_type D, class A> struct is_owning<multi::array<T, D, A>> : std::true_type {};
template<class T, multi::dimensionality_type D, class A> struct is_owning<multi::static_array<T, D, A>> : std::true_type {};

// value category used for the call
enum Cat { CAT_LVALUE, CAT_RVALUE, CAT_CONST };

template<class Fin, bool Based = false, int MaxD = 5, bool KeepD = false, bool NoConst = false>
struct Interp {
	Input const& in;
	Ctx& ctx;
	Fin& fin;
	int k = 0;          // next op record
	int kend = -1;      // one past the last record to use (-1: all)
	int nrec() const { return kend >= 0 ? std::min(kend, in.nops()) : in.nops(); }
	int applied = 0, layout_changing = 0;
	bool no_const = NoConst;   // never choose the const value category (destinations of assignments must stay mutable)
	bool null_root = false;  // the root owns no storage (data pointer may be null): the library asserts that a null pointer is never offset,
	                         // so views of such roots are sliced/dropped at offset 0 only (array_ref.hpp sliced_aux_: "it is UB to offset a nullptr")

	Interp(Input const& in_, Ctx& ctx_, Fin& fin_) : in(in_), ctx(ctx_), fin(fin_) {}

	// apply `f` to v with the chosen value category and continue; the const category is emitted only where it instantiates
	template<bool ConstOK, class V, class F>
	void apply(V& v, unsigned cat, Model& m2, char const* what, F&& f) {
		if(no_const && cat % 3U == CAT_CONST) { cat = CAT_LVALUE; }
		switch(cat % 3U) {
			case CAT_RVALUE: if constexpr(!is_owning<std::remove_const_t<V>>::value) { ctx.desc << "&&"; auto&& w = f(std::move(v)); next(w, m2, what); return; } [[fallthrough]];
			case CAT_CONST: if constexpr(ConstOK && !NoConst) { ctx.desc << "c&"; auto&& w = f(std::as_const(v)); next(w, m2, what); return; } [[fallthrough]];
			default: { ctx.desc << "&"; auto&& w = f(v); next(w, m2, what); return; }
		}
	}

	template<class W> void next(W&& w, Model& m2, char const* what) {
		check_shape(w, m2, what);
		++applied;
		step(w, m2);
	}

	template<class V>
	void step(V& v, Model m) {
		constexpr int D = rank_of<V>;
		constexpr bool is_const_v = std::is_const_v<V>;
		while(k < nrec()) {
			int const kk = k++;
			unsigned const code = in.op(kk, 0) % (Based ? static_cast<unsigned>(NOPS) : static_cast<unsigned>(OP_REINDEXED));
			unsigned const a = in.op(kk, 1), b = in.op(kk, 2), c = in.op(kk, 3);
			unsigned const cat = c % 3U;
			bool const keep = ((c >> 2U) & 7U) != 0;  // 7 of 8 records prefer a non-empty result where one exists
			Dim const d0 = m.d[0];
			Model m2 = m;
			auto& t = ctx.desc;
			auto tag = [&](char const* name) { t << " ." << name; };
			if(Based && null_root && !known_mode()) {
				// a re-based array with zero elements reports the extension [0,0) while its hidden layout offset is non-zero: every slicing
				// operation trips the null-pointer-offset assertion (same family as the recorded C01 finding); only shape operations are applied
				switch(code) { case OP_ROTATED: case OP_UNROTATED: case OP_TRANSPOSED: case OP_TILDE: case OP_REVERSED: case OP_PAREN0: break; default: ctx.count("ops_skipped_based_null_root"); continue; }
			}
			switch(code) {
			case OP_INDEX: if constexpr(D >= 2 && !KeepD) { if(d0.size >= 1) {
				long o = (null_root && !known_mode()) ? 0 : a % d0.size;
				m2.offset += o*d0.stride; m2.d.erase(m2.d.begin());
				tag("["); t << (d0.first + o) << "]";
				apply<true>(v, cat, m2, "operator[]", [&](auto&& x) -> decltype(auto) { return std::forward<decltype(x)>(x)[d0.first + o]; }); return;
			}} break;
			case OP_SLICED: case OP_RANGE: case OP_BRACE: case OP_BLOCKED: {
				if(code == OP_BLOCKED && !Based) { break; }
				long lo = (null_root && !known_mode()) ? 0 : a % (d0.size + 1), hi = lo + b % (d0.size - lo + 1);
				if(keep && d0.size >= 1 && !(null_root && !known_mode())) { lo = a % d0.size; hi = lo + 1 + b % (d0.size - lo); }
				m2.offset += lo*d0.stride; m2.d[0].size = hi - lo;
				if(m.empty()) { m2.offset = m.offset; }
				long f = d0.first + lo, l = d0.first + hi;
				if(code == OP_SLICED) {
					tag("sliced("); t << f << ',' << l << ')';
					apply<true>(v, cat, m2, "sliced", [&](auto&& x) -> decltype(auto) { return std::forward<decltype(x)>(x).sliced(f, l); }); return;
				}
				if(code == OP_RANGE) {
					tag("range({"); t << f << ',' << l << "})";
					apply<true>(v, cat, m2, "range", [&](auto&& x) -> decltype(auto) { return std::forward<decltype(x)>(x).range(multi::irange{f, l}); }); return;
				}
				if(code == OP_BRACE) {
					tag("({"); t << f << ',' << l << "})";
					apply<true>(v, cat, m2, "operator()({a,b})", [&](auto&& x) -> decltype(auto) { return std::forward<decltype(x)>(x)({f, l}); }); return;
				}
				if constexpr(Based && !is_const_v) {
					m2.d[0].first = f;
					tag("blocked("); t << f << ',' << l << ')';
					auto&& w = v.blocked(f, l);
					next(w, m2, "blocked"); return;
				}
				break;
			}
			case OP_SLICED3: {
				long lo = (null_root && !known_mode()) ? 0 : a % (d0.size + 1), hi = lo + b % (d0.size - lo + 1);
				if(keep && d0.size >= 1 && !(null_root && !known_mode())) { lo = a % d0.size; hi = lo + 1 + b % (d0.size - lo); }
				long n = hi - lo; if(n < 1) { break; }
				auto dv = divisors(n); long s = dv[(c / 3U) % dv.size()];
				if(Based && (d0.first % s) != 0) { break; }
				m2.offset += lo*d0.stride; m2.d[0].size = n / s; m2.d[0].stride = d0.stride*s; m2.d[0].first = d0.first / s;
				long f = d0.first + lo, l = d0.first + hi;
				tag("sliced("); t << f << ',' << l << ',' << s << ')';
				if constexpr(!NoConst) { auto&& w = std::as_const(v).sliced(f, l, s); next(w, m2, "sliced(a,b,s)"); return; } else { break; }
			}
			case OP_STRIDED: if constexpr((D == 1) || VP_CONST_STRIDED || !is_const_v) {
				if(d0.size < 1) { break; }
				auto dv = divisors(d0.size); long s = dv[a % dv.size()];
				if(Based && (d0.first % s) != 0) { break; }
				m2.d[0].size = d0.size / s; m2.d[0].stride = d0.stride*s; m2.d[0].first = d0.first / s;
				tag("strided("); t << s << ')';
				apply<(D == 1) || VP_CONST_STRIDED>(v, cat, m2, "strided", [&](auto&& x) -> decltype(auto) { return std::forward<decltype(x)>(x).strided(s); }); return;
			} else { ctx.count("ops_excluded_const_overload"); } break;
			case OP_DROPPED: if constexpr((D == 1) || VP_CONST_DROPPED || !is_const_v) {
				long n = (null_root && !known_mode()) ? 0 : a % (d0.size + 1);
				if(keep && d0.size >= 1 && !(null_root && !known_mode())) { n = a % d0.size; }
				m2.d[0].size = d0.size - n; if(!m.empty()) { m2.offset += n*d0.stride; }
				tag("dropped("); t << n << ')';
				apply<(D == 1) || VP_CONST_DROPPED>(v, cat, m2, "dropped", [&](auto&& x) -> decltype(auto) { return std::forward<decltype(x)>(x).dropped(n); }); return;
			} else { ctx.count("ops_excluded_const_overload"); } break;
			case OP_TAKED: if constexpr((D == 1) || VP_CONST_TAKED || !(is_const_v || is_csub<V>::value)) {
				long n = a % (d0.size + 1);
				if(keep && d0.size >= 1) { n = 1 + a % d0.size; }
				m2.d[0].size = n;
				tag("taked("); t << n << ')';
				apply<(D == 1) || VP_CONST_TAKED>(v, cat, m2, "taked", [&](auto&& x) -> decltype(auto) { return std::forward<decltype(x)>(x).taked(n); }); return;
			} else { ctx.count("ops_excluded_const_overload"); } break;
			case OP_ROTATED: {
				std::rotate(m2.d.begin(), m2.d.begin() + 1, m2.d.end());
				tag("rotated()");
				if(D > 1) { ++layout_changing; }
				apply<true>(v, cat, m2, "rotated", [&](auto&& x) -> decltype(auto) { return std::forward<decltype(x)>(x).rotated(); }); return;
			}
			case OP_UNROTATED: {
				std::rotate(m2.d.begin(), m2.d.end() - 1, m2.d.end());
				tag("unrotated()");
				if(D > 1) { ++layout_changing; }
				apply<true>(v, cat, m2, "unrotated", [&](auto&& x) -> decltype(auto) { return std::forward<decltype(x)>(x).unrotated(); }); return;
			}
			case OP_TRANSPOSED: case OP_TILDE: if constexpr(D >= 2) {
				std::swap(m2.d[0], m2.d[1]);
				++layout_changing;
				if(code == OP_TRANSPOSED) {
					tag("transposed()");
					apply<true>(v, cat, m2, "transposed", [&](auto&& x) -> decltype(auto) { return std::forward<decltype(x)>(x).transposed(); }); return;
				}
				tag("~");
				apply<true>(v, cat, m2, "operator~", [&](auto&& x) -> decltype(auto) { return ~std::forward<decltype(x)>(x); }); return;
			} break;
			case OP_REVERSED: if constexpr((D == 1) || VP_CONST_REVERSED || !is_const_v) {
				std::reverse(m2.d.begin(), m2.d.end());
				tag("reversed()");
				if(D > 1) { ++layout_changing; }
				apply<(D == 1) || VP_CONST_REVERSED>(v, cat, m2, "reversed", [&](auto&& x) -> decltype(auto) { return std::forward<decltype(x)>(x).reversed(); }); return;
			} else { ctx.count("ops_excluded_const_overload"); } break;
			case OP_DIAGONAL: if constexpr(D >= 2 && !KeepD) {
				if(Based && (m.d[0].first != 0 || m.d[1].first != 0)) { ctx.count("ops_skipped_diagonal_based"); break; }  // diagonal() slices with literal {0,n}: zero-based views only
			if(Based && null_root && !known_mode()) { break; }  // (internally slices a null-based view whose hidden offset is non-zero)
				Dim const d1 = m.d[1];
				m2.d.erase(m2.d.begin());
				m2.d[0] = Dim{d1.first, std::min(d0.size, d1.size), d0.stride + d1.stride};
				tag("diagonal()");
				++layout_changing;
				apply<true>(v, cat, m2, "diagonal", [&](auto&& x) -> decltype(auto) { return std::forward<decltype(x)>(x).diagonal(); }); return;
			} break;
			case OP_PARTITIONED: case OP_CHUNKED: if constexpr(D < MaxD && !KeepD) {
				if(d0.size < 1) { break; }
				auto dv = divisors(d0.size); long n = dv[a % dv.size()];  // number of parts
				m2.d[0] = Dim{d0.first, d0.size / n, d0.stride};
				m2.d.insert(m2.d.begin(), Dim{0, n, d0.stride*(d0.size / n)});
				++layout_changing;
				if(code == OP_PARTITIONED) {
					tag("partitioned("); t << n << ')';
					apply<true>(v, cat, m2, "partitioned", [&](auto&& x) -> decltype(auto) { return std::forward<decltype(x)>(x).partitioned(n); }); return;
				}
				tag("chunked("); t << (d0.size / n) << ')';
				apply<true>(v, cat, m2, "chunked", [&](auto&& x) -> decltype(auto) { return std::forward<decltype(x)>(x).chunked(d0.size / n); }); return;
			} break;
			case OP_FLATTED: if constexpr(D >= 2 && !KeepD) {
				Dim const d1 = m.d[1];
				if(!(d0.size <= 1 || d0.stride == d1.size*d1.stride)) { ctx.count("skipped_not_flattable"); break; }
				if(m.empty()) { break; }  // the shape of an empty flattened view is not documented
				m2.d.erase(m2.d.begin());
				m2.d[0] = Dim{d1.first, d0.size*d1.size, d1.stride};
				tag("flatted()");
				++layout_changing;
				apply<true>(v, cat, m2, "flatted", [&](auto&& x) -> decltype(auto) { return std::forward<decltype(x)>(x).flatted(); }); return;
			} break;
			case OP_PAREN0: {
				tag("()");
				apply<true>(v, cat, m2, "operator()()", [&](auto&& x) -> decltype(auto) { return std::forward<decltype(x)>(x)(); }); return;
			}
			case OP_REINDEXED: if constexpr(Based && !is_const_v) {
				long nf = static_cast<long>(a % 7U) - 3;
				m2.d[0].first = nf;
				if(m.empty()) { break; }
				tag("reindexed("); t << nf << ')';
				auto&& w = v.reindexed(nf);
				next(w, m2, "reindexed"); return;
			} break;
			case OP_CALL: {
				if(call_syntax(v, m, a, b, c)) { return; }
				break;
			}
			default: break;
			}
			ctx.count("ops_skipped");
		}
		ctx.count("ops_applied", applied);
		fin(v, m, *this);
	}

	// call syntax v(a0,...,a_{n-1}) with n <= min(D,3) arguments, each one an index, an irange, a brace pair or multi::all
	template<class V>
	bool call_syntax(V& v, Model const& m, unsigned a, unsigned b, unsigned c) {
		constexpr int D = rank_of<V>;
		int n = 1 + static_cast<int>(a % static_cast<unsigned>(std::min(D, 3)));
		if(m.empty()) { return false; }  // argument domains of empty views are not predictable from the model
		unsigned kinds = b;  // 2 bits per argument: 0 index, 1 irange, 2 all, 3 `_`
		unsigned vals = c | (a << 8U) | (b << 16U);
		Model m2; m2.offset = m.offset;
		int kept = 0;
		long arg_lo[3] = {}, arg_hi[3] = {}; int arg_kind[3] = {};
		for(int j = 0; j < n; ++j) {
			Dim const dj = m.d[static_cast<std::size_t>(j)];
			int kd = static_cast<int>((kinds >> (2*j)) & 3U);
			if(KeepD && kd == 0) { kd = 2; }
			if(kd == 0 && (D - (n - kept) < 0)) { kd = 1; }
			if(kd == 0 && j == n - 1 && kept == 0 && n == D) { kd = 1; }  // keep at least one dimension: the result is a view
			unsigned r = (vals >> (5*j)) & 31U;
			if(kd == 0) { long o = r % dj.size; arg_lo[j] = dj.first + o; m2.offset += o*dj.stride; }
			else if(kd == 1) { long lo = r % (dj.size + 1); long hi = lo + (r / 6U) % (dj.size - lo + 1); arg_lo[j] = dj.first + lo; arg_hi[j] = dj.first + hi; m2.offset += lo*dj.stride; m2.d.push_back(Dim{dj.first, hi - lo, dj.stride}); ++kept; }
			else { m2.d.push_back(dj); ++kept; }
			arg_kind[j] = kd;
		}
		for(int j = n; j < D; ++j) { m2.d.push_back(m.d[static_cast<std::size_t>(j)]); }
		if(m2.empty()) { m2.offset = m.offset; /* positions are irrelevant */ }
		auto& t = ctx.desc;
		t << " .(";
		for(int j = 0; j < n; ++j) {
			if(j) { t << ','; }
			if(arg_kind[j] == 0) { t << arg_lo[j]; } else if(arg_kind[j] == 1) { t << '{' << arg_lo[j] << ',' << arg_hi[j] << '}'; } else if(arg_kind[j] == 2) { t << "all"; } else { t << '_'; }
		}
		t << ')';
		call_args<0>(v, m2, n, arg_kind, arg_lo, arg_hi);
		return true;
	}

	template<int J, class V, class... Args>
	void call_args(V& v, Model& m2, int n, int const* kind, long const* lo, long const* hi, Args... args) {
		constexpr int D = rank_of<V>;
		if constexpr(J < (D < 3 ? D : 3)) {
			if(J < n) {
				switch(kind[J]) {
					case 0: if constexpr(!KeepD) { call_args<J + 1>(v, m2, n, kind, lo, hi, args..., static_cast<multi::index>(lo[J])); } return;
					case 1: call_args<J + 1>(v, m2, n, kind, lo, hi, args..., multi::irange{lo[J], hi[J]}); return;
					case 2: call_args<J + 1>(v, m2, n, kind, lo, hi, args..., multi::ALL); return;
					default: call_args<J + 1>(v, m2, n, kind, lo, hi, args..., multi::_); return;  // same type as ALL: no extra instantiation
				}
			}
		}
		if constexpr(sizeof...(Args) >= 1) {
			call_do(v, m2, args...);
		}
	}
	template<class V, class... Args>
	void call_do(V& v, Model& m2, Args... args) {
		constexpr int D = rank_of<V>;
		constexpr int nidx = (0 + ... + (std::is_same_v<Args, multi::index> ? 1 : 0));
		if constexpr(nidx < D) {
			auto&& w = v(args...);
			next(w, m2, "operator()(args...)");
		}
	}
};

}  // namespace vp
