// vp/c06based.hpp — the C06 program on re-based arrays (shared by C19 and by the positive half of C20)
#pragma once

#include "c02.hpp"

#include <map>
#include <memory_resource>

// ---- the C06 program on re-based arrays: reextent to explicit index extensions keeps the elements whose *index tuple* lies in both the old and the new
// extensions; copy construction / copy assignment carry the extensions over; == compares by position within the extensions
namespace vp::based {
namespace multi = boost::multi;
template<int D> struct BasedArr {
	std::array<long, D> first{}, size{};
	std::map<std::array<long, D>, int> v;  // index tuple -> value
	long n() const { long r = 1; for(auto s : size) { r *= s; } return r; }
};
template<int D, std::size_t... I> multi::extensions_t<D> bext(BasedArr<D> const& m, std::index_sequence<I...>) { return multi::extensions_t<D>{multi::iextension{m.first[I], m.first[I] + m.size[I]}...}; }
template<int D> multi::extensions_t<D> bext(BasedArr<D> const& m) { return bext<D>(m, std::make_index_sequence<static_cast<std::size_t>(D)>{}); }
template<int D, class F> void for_each_index(BasedArr<D> const& m, F&& f) {
	if(m.n() == 0) { return; }
	std::array<long, D> t = m.first;
	while(true) { f(t); int k = D - 1; for(; k >= 0; --k) { if(++t[static_cast<std::size_t>(k)] < m.first[static_cast<std::size_t>(k)] + m.size[static_cast<std::size_t>(k)]) { break; } t[static_cast<std::size_t>(k)] = m.first[static_cast<std::size_t>(k)]; } if(k < 0) { break; } }
}
template<int D, class Arr> void check_based(Arr const& A, BasedArr<D> const& m, char const* after) {
	VP_CHECK(static_cast<long>(A.num_elements()) == m.n(), "based/num_elements", "after " << after << ": num_elements()=" << A.num_elements() << " model " << m.n());
	if(m.n() == 0) { return; }
	long f[D], l[D]; vp::lib_extensions(A, f, l);
	for(int k = 0; k < D; ++k) { VP_CHECK(f[k] == m.first[static_cast<std::size_t>(k)] && l[k] - f[k] == m.size[static_cast<std::size_t>(k)], "based/extensions", "after " << after << ": extension " << k << " is [" << f[k] << "," << l[k] << ") model [" << m.first[static_cast<std::size_t>(k)] << "," << (m.first[static_cast<std::size_t>(k)] + m.size[static_cast<std::size_t>(k)]) << ")"); }
	for_each_index<D>(m, [&](std::array<long, D> const& t) {
		long idx[D]; for(int k = 0; k < D; ++k) { idx[k] = t[static_cast<std::size_t>(k)]; }
		int got = *vp::addr_chain(A, idx);
		VP_CHECK(got == m.v.at(t), "based/elements", "after " << after << ": element at index (" << t[0] << (D > 1 ? "," : "") << (D > 1 ? t[static_cast<std::size_t>(D - 1)] : 0) << ") is " << got << " model " << m.v.at(t));
	});
}
// Pmr: the two arrays live on two different memory resources (a non-propagating allocator that is not always equal): temporaries come from a third one, so
// every move assignment moves element-wise into storage of the destination's allocator and has to carry the index bases over like the stealing path does
template<int D, bool Pmr = false> void run_c06_based(vp::Input const& in, vp::Ctx& ctx) {
	ctx.desc << "D=" << D << (Pmr ? " pmr" : "");
	using Arr = std::conditional_t<Pmr, multi::array<int, D, std::pmr::polymorphic_allocator<int>>, multi::array<int, D>>;
	std::pmr::monotonic_buffer_resource res0, res1;
	auto mk = [&](std::pmr::memory_resource* r) { if constexpr(Pmr) { return Arr(std::pmr::polymorphic_allocator<int>(r)); } else { (void)r; return Arr(); } };
	Arr A[2] = {mk(&res0), mk(&res1)}; BasedArr<D> M[2];
	bool nt = false;
	for(int r = 0; r < in.nops(); ++r) {
		unsigned op = in.op(r, 0) >= 235U ? 9U : in.op(r, 0) % 9U; int a  /* (operation 9 was added later: it is decoded from a reserved byte range so that older inputs keep their meaning) */ = in.op(r, 1) & 1, b = 1 - a;
		unsigned x = in.op(r, 2) | (static_cast<unsigned>(in.op(r, 3)) << 8U);
		BasedArr<D> nm;
		for(int k = 0; k < D; ++k) { nm.first[static_cast<std::size_t>(k)] = static_cast<long>((x >> (5*k)) & 7U) % 7 - 3; nm.size[static_cast<std::size_t>(k)] = static_cast<long>((x >> (5*k + 3)) & 3U) + ((op == 0) ? 0 : 1); }
		auto pr = [&](BasedArr<D> const& m) { ctx.desc << '('; for(int k = 0; k < D; ++k) { if(k) { ctx.desc << ','; } ctx.desc << '{' << m.first[static_cast<std::size_t>(k)] << ',' << (m.first[static_cast<std::size_t>(k)] + m.size[static_cast<std::size_t>(k)]) << '}'; } ctx.desc << ')'; };
		switch(op) {
			case 0: case 1: {  // reextent with a fill value
				int fillv = 100 + static_cast<int>(x % 50U);
				ctx.desc << " | reextent " << a; pr(nm); ctx.desc << "," << fillv;
				long common = 0;
				for_each_index<D>(nm, [&](std::array<long, D> const& t) { auto it = M[a].v.find(t); if(it != M[a].v.end() && M[a].n() > 0) { nm.v[t] = it->second; ++common; } else { nm.v[t] = fillv; } });
				if(common > 0 && common < M[a].n() && common < nm.n() && nm.first != M[a].first) { nt = true; }
				A[a].reextent(bext<D>(nm), fillv);
				if(nm.n() == 0) { nm.v.clear(); }
				M[a] = nm;
				break;
			}
			case 2: {  // construct with explicit extensions
				ctx.desc << " | construct " << a; pr(nm);
				int c = 0; for_each_index<D>(nm, [&](std::array<long, D> const& t) { nm.v[t] = 10 + (c++) % 80; });
				Arr T(bext<D>(nm), 0);
				c = 0; for(auto& e : T.elements()) { e = 10 + (c++) % 80; }
				A[a] = std::move(T); M[a] = nm;
				break;
			}
			case 3:
				if((in.op(r, 1) & 0x80U) != 0) {  // move assignment between the two arrays (decoded from a spare bit of the copy-assign record); the source is emptied afterwards
					ctx.desc << " | move-assign " << a << " <- " << b;
					if(M[a].n() > 0 && M[a].size == M[b].size && M[a].first != M[b].first) { nt = true; ctx.label("move_assign_same_sizes_other_bases"); }
					A[a] = std::move(A[b]); M[a] = M[b]; A[b].clear(); M[b] = BasedArr<D>{};
					break;
				}
				ctx.desc << " | copy-assign " << a << " <- " << b; A[a] = A[b]; M[a] = M[b]; break;
			case 4: { ctx.desc << " | copy-construct " << a << " <- " << b; Arr T(A[b]); A[a] = std::move(T); M[a] = M[b]; break; }
			case 6: { ctx.desc << " | assign-convertible " << a << " <- array<long>(" << b << ")"; multi::array<long, D> L(A[b]); A[a] = L; M[a] = M[b]; break; }  // converting copies carry the extensions over
			case 7: { ctx.desc << " | construct-convertible " << a << " <- array<long>(" << b << ")"; multi::array<long, D> L(A[b]); Arr T(L); A[a] = std::move(T); M[a] = M[b]; break; }
			case 8: { ctx.desc << " | assign-view " << a << " <- " << b << "()"; A[a] = A[b](); M[a] = M[b]; break; }
			case 9: {  // assign(first, last) from the rows (elements for D = 1) of the other array: the leading index range becomes [0, n), the rows keep their own index ranges
				if(M[b].n() == 0) { break; }
				ctx.desc << " | assign(first,last) " << a << " <- rows of " << b;
				A[a].assign(A[b].begin(), A[b].end());
				BasedArr<D> nm2 = M[b]; nm2.first[0] = 0; nm2.v.clear();
				for(auto const& kv : M[b].v) { auto t = kv.first; t[0] -= M[b].first[0]; nm2.v[t] = kv.second; }
				M[a] = nm2;
				break;
			}
			default: {  // element write through the index
				if(M[a].n() == 0) { break; }
				std::array<long, D> t; long idx[D];
				for(int k = 0; k < D; ++k) { t[static_cast<std::size_t>(k)] = M[a].first[static_cast<std::size_t>(k)] + static_cast<long>((x >> (4*k)) & 15U) % M[a].size[static_cast<std::size_t>(k)]; idx[k] = t[static_cast<std::size_t>(k)]; }
				int nv = 200 + static_cast<int>(x % 40U);
				ctx.desc << " | write " << a;
				*const_cast<int*>(vp::addr_chain(A[a], idx)) = nv; M[a].v[t] = nv;
				break;
			}
		}
		check_based<D>(A[0], M[0], "step"); check_based<D>(A[1], M[1], "step");
		if constexpr(Pmr) { VP_CHECK(A[0].get_allocator().resource() == &res0 && A[1].get_allocator().resource() == &res1, "based/allocator", "an array changed its (non-propagating) memory resource"); }
		// equality addresses the same elements: equal iff same extensions and same values
		if(M[0].n() > 0 && M[1].n() > 0) {
			bool const want = M[0].first == M[1].first && M[0].size == M[1].size && M[0].v == M[1].v;
			VP_CHECK((A[0] == A[1]) == want && (A[0] != A[1]) == !want, "based/equality", "A==B is " << (A[0] == A[1]) << " model " << want);
			// the same for operands of different static types (views, a view over pointer-to-const, another element type): these go through other overloads
			auto&& va = A[0](); auto&& vb = A[1]();
			VP_CHECK((va == vb) == want && (va != vb) == !want, "based/equality_views", "A()==B() is " << (va == vb) << " model " << want);
			multi::array_ref<int, D, int const*> CR(A[1].extensions(), A[1].data_elements());
			VP_CHECK((va == CR()) == want && (va != CR()) == !want && (CR() == va) == want, "based/equality_const_pointer_view", "A()==cref(B)() is " << (va == CR()) << " model " << want);
			multi::array<long, D> L(A[1]);
			VP_CHECK((va == L()) == want && (va != L()) == !want && (L == A[0]) == want, "based/equality_other_element_type", "A()==array<long>(B)() is " << (va == L()) << " model " << want);
			if constexpr(D >= 2) {  // rows: 1-D operands of different static types
				if(M[0].size[0] > 0 && M[1].size[0] > 0) {
					bool roweq = M[0].first[1] == M[1].first[1] && M[0].size[1] == M[1].size[1];
					if(roweq) { std::array<long, D> ta{M[0].first[0], 0}, tb{M[1].first[0], 0}; for(long j = 0; j < M[0].size[1] && roweq; ++j) { ta[1] = M[0].first[1] + j; tb[1] = M[1].first[1] + j; roweq = M[0].v.at(ta) == M[1].v.at(tb); } }
					auto&& ra = A[0][M[0].first[0]]; auto&& rb = CR[M[1].first[0]]; auto&& rl = L[M[1].first[0]];
					VP_CHECK((ra == rb) == roweq && (ra != rb) == !roweq, "based/equality_rows_const_pointer", "first rows: a==b is " << (ra == rb) << " model " << roweq);
					VP_CHECK((ra == rl) == roweq && (ra != rl) == !roweq, "based/equality_rows_other_element_type", "first rows: a==b<long> is " << (ra == rl) << " model " << roweq);
				}
			} else {
				(void)0;
			}
		}
	}
	ctx.nontrivial = nt;
	ctx.label(Pmr ? "program_C06_pmr" : "program_C06");
}
}  // namespace vp::based
