// vp/c16_probe.hpp — compile-time "is anything writable from here?" probe used by the generated C16 programs (py/c16.py).
// probe<E>() takes the type (with value category, as given by decltype((expr))) of the expression at the end of an access path and follows
// every observer the object offers (chained [], dereference, operator->, begin(), elements(), home(), front(), call syntax) down to element references,
// collecting which of them are modifiable.  Only declared return types are inspected, which is exactly what decides whether an element
// reference is `T&` or `T const&`.  Whether an object *accepts* assignment, swap or fill cannot be read off declarations in this library
// (several mutating members are declared for read-only types and fail only when their body is instantiated or linked): that question is
// answered by phase 2 of py/c16.py, which builds real statements.
#pragma once

#include <boost/multi/array.hpp>

#include <type_traits>
#include <utility>

namespace vp16 {
namespace multi = boost::multi;

template<class E> using rr = std::remove_cv_t<std::remove_reference_t<E>>;
template<class E> constexpr bool is_elem = std::is_arithmetic_v<rr<E>>;

enum Bits : unsigned {
	W_ELEM = 1U,   // a modifiable element reference is reachable
	W_BASE = 16U,  // base() / data_elements() of an array or view is a pointer to non-const
	W_VIA_IDX = 32U, W_VIA_DEREF = 64U, W_VIA_ELEMENTS = 128U, W_VIA_BEGIN = 256U, W_VIA_HOME = 512U, W_VIA_FRONT = 1024U, W_VIA_CALL = 2048U, W_VIA_ARROW = 4096U  // which first observer led to the modifiable element
};

#define VP16_DETECT(NAME, EXPR)                                                                            \
	template<class E, class = void> struct NAME : std::false_type { using type = void; };                  \
	template<class E> struct NAME<E, std::void_t<decltype(EXPR)>> : std::true_type { using type = decltype((EXPR)); };

VP16_DETECT(d_index, std::declval<E>()[0])
VP16_DETECT(d_deref, *std::declval<E>())
VP16_DETECT(d_elements, std::declval<E>().elements())
VP16_DETECT(d_begin, std::declval<E>().begin())
VP16_DETECT(d_home, std::declval<E>().home())
VP16_DETECT(d_front, std::declval<E>().front())
VP16_DETECT(d_arrow, std::declval<E>().operator->())  // iterators, sub-array pointers and their arrow proxies: it->member is (*it.operator->()).member
VP16_DETECT(d_base, std::declval<E>().base())
VP16_DETECT(d_data_elements, std::declval<E>().data_elements())
VP16_DETECT(d_call0, std::declval<E>()())
VP16_DETECT(d_rank, rr<E>::rank_v)

template<class P> constexpr bool points_to_mutable() {
	if constexpr(std::is_void_v<P>) { return false; }
	else if constexpr(d_deref<P>::value) { using R = typename d_deref<P>::type; return std::is_assignable_v<R, int>; }
	else { return false; }
}

template<class E, int Budget = 7>
constexpr unsigned probe() {
	if constexpr(is_elem<E>) { return std::is_assignable_v<E, int> ? W_ELEM : 0U; }
	else {
		unsigned r = 0;
		if constexpr(Budget > 0) {
			auto via = [](unsigned sub, unsigned tag) { return (sub & W_ELEM) != 0 ? ((sub & (W_ELEM | W_BASE)) | tag) : (sub & W_BASE); };
			if constexpr(d_index<E>::value) { r |= via(probe<typename d_index<E>::type, Budget - 1>(), W_VIA_IDX); }
			if constexpr(d_deref<E>::value) { r |= via(probe<typename d_deref<E>::type, Budget - 1>(), W_VIA_DEREF); }
			if constexpr(d_elements<E>::value) { r |= via(probe<typename d_elements<E>::type, Budget - 1>(), W_VIA_ELEMENTS); }
			if constexpr(d_begin<E>::value) { r |= via(probe<typename d_begin<E>::type, Budget - 1>(), W_VIA_BEGIN); }
			if constexpr(d_home<E>::value) { r |= via(probe<typename d_home<E>::type, Budget - 1>(), W_VIA_HOME); }
			if constexpr(d_front<E>::value) { r |= via(probe<typename d_front<E>::type, Budget - 1>(), W_VIA_FRONT); }
			if constexpr(d_arrow<E>::value) { r |= via(probe<typename d_arrow<E>::type, Budget - 1>(), W_VIA_ARROW); }
			if constexpr(d_rank<E>::value && d_elements<E>::value) { if constexpr(d_call0<E>::value) { r |= via(probe<typename d_call0<E>::type, Budget - 1>(), W_VIA_CALL); } }
		}
		// base()/data_elements(): asked of arrays and views only (iterators, cursors and element ranges expose their raw pointer by design; base() is not one of
		// the access-path operations the property quantifies over)
		if constexpr(d_rank<E>::value && d_elements<E>::value) {
			if constexpr(d_base<E>::value) { if(points_to_mutable<rr<typename d_base<E>::type>>()) { r |= W_BASE; } }
			if constexpr(d_data_elements<E>::value) { if(points_to_mutable<rr<typename d_data_elements<E>::type>>()) { r |= W_BASE; } }
		}
		return r;
	}
}

// reference types (views, array references): can a *named* object be copy-constructed into another object of the same type?
template<class E> constexpr bool copyable_from_named() { return std::is_constructible_v<rr<E>, rr<E>&> || std::is_constructible_v<rr<E>, rr<E> const&>; }

// well-formedness of a generated path on a root type: P::f has a trailing decltype, so an invalid path is a substitution failure where the library is
// SFINAE-friendly (it mostly is not: the generator's model only emits applicable steps, and py/c16.py bisects around hard errors)
template<class P, class R, class = void> struct well_formed : std::false_type {};
template<class P, class R> struct well_formed<P, R, std::void_t<decltype(P::f(std::declval<R&>()))>> : std::true_type {};

template<class P, class R>
constexpr long row() {  // -1: the path is not instantiable on this root; otherwise the probe bits
	if constexpr(!well_formed<P, R>::value) { return -1; }
	else { return static_cast<long>(probe<decltype(P::f(std::declval<R&>()))>()); }
}
template<class P, class R>
constexpr int copy_row() {  // -1 not instantiable / not an array-like object; 0 not copyable from a named object; 1 copyable
	if constexpr(!well_formed<P, R>::value) { return -1; }
	else {
		using E = decltype(P::f(std::declval<R&>()));
		if constexpr(is_elem<E>) { return -1; }
		else if constexpr(!(d_rank<E>::value && d_elements<E>::value)) { return -1; }
		else { return copyable_from_named<E>() ? 1 : 0; }
	}
}
}  // namespace vp16
