// vp/instr.hpp — instrumented element, allocator and memory resource (DESIGN 3.2)
#pragma once

#include <cstddef>
#include <cstring>
#include <map>
#include <memory>
#include <memory_resource>
#include <new>
#include <string>
#include <type_traits>
#include <unordered_set>
#include <vector>

namespace vp {

struct InjectedFault : std::exception { char const* what() const noexcept override { return "vp injected fault"; } };

// ------------------------------------------------------------------------------------------------ global observation state
struct Obs {
	// element registry
	std::unordered_set<void const*> alive;
	std::vector<std::string> errors;
	long ctor_default = 0, ctor_value = 0, ctor_copy = 0, ctor_move = 0, assign_copy = 0, assign_move = 0, dtor = 0;
	// fault injection: events are numbered from 1 in the order they happen; event number `fault_at` throws
	long events = 0, fault_at = 0;
	bool fault_fired = false;
	char const* fault_kind = "";
	unsigned fault_mask = 0xFFU;  // which event kinds count: 1 alloc, 2 copy-ctor, 4 move-ctor, 8 copy-assign, 16 move-assign, 32 default/value ctor
	// allocator ledger
	struct Block { std::size_t n; std::size_t size_of; int id; };
	std::map<void const*, Block> blocks;
	long allocs = 0, deallocs = 0, alloc_bytes = 0;

	void reset() { *this = Obs{}; }
	void error(std::string e) { if(errors.size() < 20) { errors.push_back(std::move(e)); } }
	// returns true if this event must throw
	int context = -1;                                  // operation kind the harness is executing (set by the state machine)
	bool (*veto)(int context, unsigned kind) = nullptr; // recorded known findings: (operation, event kind) pairs that are not injected
	bool vetoed = false; long vetoed_count = 0;
	bool paused = false;  // events caused by the harness itself (building argument temporaries) are neither counted nor faulted
	bool event(unsigned kind, char const* name) {
		if(paused || (fault_mask & kind) == 0) { return false; }
		++events;
		if(fault_at != 0 && events == fault_at && !fault_fired) {
			if(veto != nullptr && veto(context, kind)) { vetoed = true; ++vetoed_count; fault_kind = name; return false; }
			fault_fired = true; fault_kind = name; fault_context = context; fault_event_kind = kind; return true;
		}
		return false;
	}
	int fault_context = -1; unsigned fault_event_kind = 0;
	long copies_and_moves() const { return ctor_copy + ctor_move + assign_copy + assign_move; }
};
inline Obs& obs() { static Obs o; return o; }

// ------------------------------------------------------------------------------------------------ Tracked element
// Flavor 0: every special member may throw (the default).  Flavor 1: move assignment is noexcept (and never faulted) while move construction may throw.
// Flavor 2: move construction is noexcept while move assignment may throw.  (Library code that picks a rollback strategy from one trait while executing the
// other operation is only visible with such asymmetric element types.)
template<int Flavor>
struct TrackedT {
	using Tracked = TrackedT;
	int v;

	void born(char const* how) { if(!obs().alive.insert(this).second) { obs().error(std::string("element constructed over a live object (") + how + ")"); } }
	static void must_live(Tracked const* p, char const* how) { if(obs().alive.count(p) == 0) { obs().error(std::string("dead or unconstructed element used: ") + how); } }

	TrackedT() : v(0) { if(obs().event(32, "default-ctor")) { throw InjectedFault{}; } born("default"); ++obs().ctor_default; }
	TrackedT(int x) : v(x) { born("value"); ++obs().ctor_value; }  // NOLINT implicit: convertible from int
	TrackedT(Tracked const& o) : v(o.v) { must_live(&o, "copy-construct from"); if(obs().event(2, "copy-ctor")) { throw InjectedFault{}; } born("copy"); ++obs().ctor_copy; }
	TrackedT(Tracked&& o) noexcept(Flavor == 2) : v(o.v) { must_live(&o, "move-construct from"); if constexpr(Flavor != 2) { if(obs().event(4, "move-ctor")) { throw InjectedFault{}; } } born("move"); ++obs().ctor_move; o.v = -1; }  // NOLINT not noexcept on purpose
	auto operator=(Tracked const& o) -> Tracked& {
		must_live(this, "copy-assign to"); must_live(&o, "copy-assign from");
		if(obs().event(8, "copy-assign")) { throw InjectedFault{}; }
		v = o.v; ++obs().assign_copy; return *this;
	}
	auto operator=(Tracked&& o) noexcept(Flavor == 1) -> Tracked& {  // NOLINT not noexcept on purpose
		must_live(this, "move-assign to"); must_live(&o, "move-assign from");
		if constexpr(Flavor != 1) { if(obs().event(16, "move-assign")) { throw InjectedFault{}; } }
		v = o.v; if(&o != this) { o.v = -1; } ++obs().assign_move; return *this;
	}
	~TrackedT() { if(obs().alive.erase(this) == 0) { obs().error("element destroyed twice or never constructed"); } ++obs().dtor; v = -99; }

	friend bool operator==(Tracked const& a, Tracked const& b) { return a.v == b.v; }
	friend bool operator!=(Tracked const& a, Tracked const& b) { return a.v != b.v; }
	friend bool operator<(Tracked const& a, Tracked const& b) { return a.v < b.v; }
	explicit operator int() const { return v; }
};
using Tracked = TrackedT<0>;
using TrackedNA = TrackedT<1>;  // nothrow move-assignable, throwing move constructor
using TrackedNC = TrackedT<2>;  // nothrow move-constructible, throwing move assignment
template<class T> struct is_tracked : std::false_type {};
template<int F> struct is_tracked<TrackedT<F>> : std::true_type {};
static_assert(!std::is_trivially_default_constructible_v<Tracked>);
static_assert(std::is_nothrow_move_assignable_v<TrackedNA> && !std::is_nothrow_move_constructible_v<TrackedNA>);
static_assert(std::is_nothrow_move_constructible_v<TrackedNC> && !std::is_nothrow_move_assignable_v<TrackedNC>);

// trivially destructible and trivially copyable, but NOT trivially default constructible: new elements must be value-initialised (v == 77) although nothing needs to be
// destroyed (the library chooses its shortcuts from these traits separately)
struct Init {
	int v = 77;
	Init() = default;
	Init(int x) : v(x) {}  // NOLINT implicit: convertible from int
	friend bool operator==(Init const& a, Init const& b) { return a.v == b.v; }
	friend bool operator!=(Init const& a, Init const& b) { return a.v != b.v; }
	explicit operator int() const { return v; }
};
static_assert(std::is_trivially_destructible_v<Init> && std::is_trivially_copyable_v<Init> && !std::is_trivially_default_constructible_v<Init>);

// trivially default-constructible element, to observe "sizing constructors do not write to trivial elements" with a painting allocator
struct Pod { int v; };
static_assert(std::is_trivial_v<Pod>);
constexpr unsigned char kPaint = 0xA5;
constexpr int kPaintInt = static_cast<int>(0xA5A5A5A5U);

// ------------------------------------------------------------------------------------------------ observing allocator
// Flags: 1 POCCA, 2 POCMA, 4 POCS, 8 is_always_equal
template<class T, int Flags = 0>
struct ObsAlloc {
	using value_type = T;
	using propagate_on_container_copy_assignment = std::bool_constant<(Flags & 1) != 0>;
	using propagate_on_container_move_assignment = std::bool_constant<(Flags & 2) != 0>;
	using propagate_on_container_swap            = std::bool_constant<(Flags & 4) != 0>;
	using is_always_equal                        = std::bool_constant<(Flags & 8) != 0>;
	template<class U> struct rebind { using other = ObsAlloc<U, Flags>; };

	int id = 0;
	int socc = 0;  // number of select_on_container_copy_construction calls in the ancestry of this instance

	ObsAlloc() = default;
	explicit ObsAlloc(int i) : id(i) {}
	template<class U> ObsAlloc(ObsAlloc<U, Flags> const& o) : id(o.id), socc(o.socc) {}  // NOLINT implicit rebind conversion

	auto select_on_container_copy_construction() const -> ObsAlloc { ObsAlloc r(*this); ++r.socc; return r; }

	auto allocate(std::size_t n) -> T* {
		if(obs().event(1, "allocate")) { throw std::bad_alloc{}; }
		if(n == 0) { obs().error("allocate(0) requested"); }
		void* p = ::operator new(n*sizeof(T));
		std::memset(p, kPaint, n*sizeof(T));
		obs().blocks[p] = Obs::Block{n, sizeof(T), id};
		++obs().allocs; obs().alloc_bytes += static_cast<long>(n*sizeof(T));
		return static_cast<T*>(p);
	}
	void deallocate(T* p, std::size_t n) noexcept {
		auto it = obs().blocks.find(p);
		if(it == obs().blocks.end()) { obs().error("deallocate of a block that is not outstanding (double free or foreign pointer)"); return; }
		if(it->second.n != n || it->second.size_of != sizeof(T)) { obs().error("deallocate with size " + std::to_string(n) + " but the block was allocated with " + std::to_string(it->second.n)); }
		if((Flags & 8) == 0 && it->second.id != id) { obs().error("block allocated by allocator " + std::to_string(it->second.id) + " released through unequal allocator " + std::to_string(id)); }
		// no live element may remain inside the block
		obs().blocks.erase(it);
		++obs().deallocs;
		::operator delete(p);
	}
	friend bool operator==(ObsAlloc const& a, ObsAlloc const& b) { return (Flags & 8) != 0 || a.id == b.id; }
	friend bool operator!=(ObsAlloc const& a, ObsAlloc const& b) { return !(a == b); }
};

// ------------------------------------------------------------------------------------------------ observing memory resource (pmr half of C10)
struct TrackResource : std::pmr::memory_resource {
	int id;
	std::map<void*, std::pair<std::size_t, std::size_t>> live;
	long allocs = 0, deallocs = 0;
	explicit TrackResource(int i) : id(i) {}
	void* do_allocate(std::size_t bytes, std::size_t align) override {
		if(obs().event(1, "pmr-allocate")) { throw std::bad_alloc{}; }
		void* p = ::operator new(bytes, std::align_val_t(align));
		std::memset(p, kPaint, bytes);
		live[p] = {bytes, align}; ++allocs;
		return p;
	}
	void do_deallocate(void* p, std::size_t bytes, std::size_t align) override {
		auto it = live.find(p);
		if(it == live.end()) { obs().error("pmr: block released through resource " + std::to_string(id) + " was not allocated by it (or double free)"); return; }
		if(it->second.first != bytes) { obs().error("pmr: deallocate with " + std::to_string(bytes) + " bytes, allocated " + std::to_string(it->second.first)); }
		live.erase(it); ++deallocs;
		::operator delete(p, std::align_val_t(align));
	}
	bool do_is_equal(std::pmr::memory_resource const& o) const noexcept override { return this == &o; }
};

}  // namespace vp
