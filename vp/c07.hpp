// vp/c07.hpp — C07 case function (equality and ordering against a nested-vector model), templated over the pointer family of the operands A and B
// so that C11 replays the same programs over fancy pointers (operand C of the triple stays on raw pointers)
#pragma once
#include "operands.hpp"

namespace multi = boost::multi;

namespace vp::c07 {

using namespace vp::ops;

struct Expect { bool eq, lt, gt; bool empty; };
Expect expect(Val const& a, Val const& b) { return Expect{m_equal(a, b), m_less(a, b), m_less(b, a), a.n() == 0 || b.n() == 0}; }

#ifndef VP_HAS_GE_ND
#define VP_HAS_GE_ND 1
#endif

template<bool Ordered, class A, class B>
void check_pair(A const& a, B const& b, Expect x, char const* what) {
	bool const eq = (a == b), ne = (a != b);
	VP_CHECK(eq == !ne, "cmp/eq_ne_negation", what << ": (a==b)=" << eq << " (a!=b)=" << ne);
	if(x.empty) { return; }
	VP_CHECK(eq == x.eq, "cmp/equal", what << ": a==b is " << eq << ", model " << x.eq);
	VP_CHECK(ne == !x.eq, "cmp/not_equal", what << ": a!=b is " << ne << ", model " << !x.eq);
	if constexpr(Ordered) {
		bool const lt = (a < b), le = (a <= b), gt = (a > b);
		VP_CHECK(lt == x.lt, "cmp/less", what << ": a<b is " << lt << ", model " << x.lt);
		VP_CHECK(gt == x.gt, "cmp/greater", what << ": a>b is " << gt << ", model " << x.gt);
		VP_CHECK(le == (x.lt || x.eq), "cmp/less_equal", what << ": a<=b is " << le << ", model " << (x.lt || x.eq));
#if VP_HAS_GE_ND
		bool const ge = (a >= b);
		VP_CHECK(ge == (x.gt || x.eq), "cmp/greater_equal", what << ": a>=b is " << ge << ", model " << (x.gt || x.eq));
#endif
		VP_CHECK(static_cast<int>(lt) + static_cast<int>(eq) + static_cast<int>(gt) == 1, "cmp/trichotomy", what << ": a<b=" << lt << " a==b=" << eq << " b<a=" << gt);
	}
}

int pattern(long const* t, int D, unsigned salt) { long s = salt; for(int k = 0; k < D; ++k) { s = s*3 + t[k]*(k + 1); } return static_cast<int>(s % 3); }

constexpr long kExt[8] = {1, 2, 3, 2, 1, 3, 4, 0};

template<int D, template<class> class AA = std::allocator, template<class> class AB = std::allocator>
void run_d(vp::Input const& in, vp::Ctx& ctx) {
	// --- decode operands
	Val ops[3];
	long e0[D]; for(int k = 0; k < D; ++k) { e0[k] = kExt[in.head(1 + k) % 8]; }
	unsigned salt = in.head(10) % 5;
	for(int o = 0; o < 3; ++o) {
		long e[D]; for(int k = 0; k < D; ++k) { e[k] = e0[k]; }
		if(o > 0) {
			unsigned h = in.head(4 + o);  // 5: operand B, 6: operand C
			if((h & 1U) != 0) { int dim = static_cast<int>((h >> 1U) % static_cast<unsigned>(D)); long delta = ((h >> 4U) & 1U) != 0 ? 1 : -1; e[dim] = std::max<long>(0, e[dim] + delta); }
		}
		ops[o].ext.assign(e, e + D);
		long n = ops[o].n();
		ops[o].v.resize(static_cast<std::size_t>(n));
		if(n > 0) { long t[D] = {}; long i = 0; do { ops[o].v[static_cast<std::size_t>(i++)] = pattern(t, D, salt); } while(next_tuple<D>(e, t)); }
	}
	// mutations: record = (operand, position, value, -)
	for(int k = 0; k < in.nops(); ++k) {
		auto& o = ops[in.op(k, 0) % 3];
		if(o.v.empty()) { continue; }
		std::size_t pos = (in.op(k, 1) & 1U) != 0 ? o.v.size() - 1 - (in.op(k, 1) / 2U) % o.v.size() : (in.op(k, 1) / 2U) % o.v.size();
		o.v[pos] = in.op(k, 2) % 3;
	}
	int ka = in.head(7) % NKINDS, kb = in.head(8) % NKINDS, kc = in.head(9) % NKINDS;
	auto& t = ctx.desc;
	t << "D=" << D << " A=" << kind_name[ka]; print(t, ops[0]); t << " B=" << kind_name[kb]; print(t, ops[1]); t << " C=" << kind_name[kc]; print(t, ops[2]);
	Expect xab = expect(ops[0], ops[1]), xba = expect(ops[1], ops[0]);
	// --- pair (typed realisations); array<long> only takes part in == / != (mixed element types have no ordering operators)
	// ordering operators between views of different pointer families are not offered by the library (as for mixed element types): those pairs take part in == / != only
	constexpr bool kSameFamily = std::is_same_v<AA<int>, AB<int>>;
	auto ordered_pair = [&](auto const& a, auto const& b) {
		check_pair<kSameFamily>(a, b, xab, "a vs b");
		check_pair<kSameFamily>(b, a, xba, "b vs a");
		check_pair<true>(a, a, expect(ops[0], ops[0]), "a vs a");
	};
	if(ka == K_CVIEW || kb == K_CVIEW) {
		int ka2 = ka == K_LONG ? K_ARRAY : ka, kb2 = kb == K_LONG ? K_ARRAY : kb;
		with_operand_a<D, int, false, AA>(ops[0], ka2, [&](auto const& a) { with_operand_a<D, int, false, AB>(ops[1], kb2, [&](auto const& b) {
			check_pair<false>(a, b, xab, "a vs b (const element pointer)"); check_pair<false>(b, a, xba, "b vs a (const element pointer)"); }); });
		ctx.label("pair_const_pointer_view");
	} else if(ka == K_LONG || kb == K_LONG) {
		if(ka == K_LONG && kb == K_LONG) {
			with_operand_a<D, long, false, AA>(ops[0], K_ARRAY, [&](auto const& a) { with_operand_a<D, long, false, AB>(ops[1], K_VIEW, [&](auto const& b) { ordered_pair(a, b); }); });
		} else if(ka == K_LONG) {
			with_operand_a<D, long, false, AA>(ops[0], (in.head(11) & 1U) ? K_ARRAY : K_TRANSPOSED, [&](auto const& a) { with_operand_a<D, int, false, AB>(ops[1], kb, [&](auto const& b) {
				check_pair<false>(a, b, xab, "a<long> vs b<int>"); check_pair<false>(b, a, xba, "b<int> vs a<long>"); }); });
		} else {
			with_operand_a<D, int, false, AA>(ops[0], ka, [&](auto const& a) { with_operand_a<D, long, false, AB>(ops[1], (in.head(11) & 1U) ? K_ARRAY : K_PADDED, [&](auto const& b) {
				check_pair<false>(a, b, xab, "a<int> vs b<long>"); check_pair<false>(b, a, xba, "b<long> vs a<int>"); }); });
		}
		ctx.label("pair_mixed_element_type");
	} else {
		with_operand_a<D, int, false, AA>(ops[0], ka, [&](auto const& a) { with_operand_a<D, int, false, AB>(ops[1], kb, [&](auto const& b) { ordered_pair(a, b); }); });
	}
	// --- triple (all realised as views of different layouts): transitivity, asymmetry, irreflexivity
	auto vk = [](int k) { return (k == K_ARRAY || k == K_REF || k == K_LONG || k == K_CVIEW) ? static_cast<int>(K_VIEW) : k; };
	bool const any_empty = ops[0].n() == 0 || ops[1].n() == 0 || ops[2].n() == 0;
	with_operand_a<D, int, false, AA>(ops[0], vk(ka), [&](auto const& a) { with_operand_a<D, int, false, AB>(ops[1], vk(kb), [&](auto const& b) { with_operand_a<D, int, false, AB>(ops[2], vk(kc), [&](auto const& c) {
		check_pair<true>(b, c, expect(ops[1], ops[2]), "b vs c");
		check_pair<kSameFamily>(a, c, expect(ops[0], ops[2]), "a vs c");
		if(any_empty) { return; }
		if constexpr(kSameFamily) {
		bool ab = a < b, bc = b < c, ac = a < c, ba = b < a;
		VP_CHECK(!(a < a) && !(b < b) && !(c < c), "cmp/irreflexive", "x<x holds");
		VP_CHECK(!(ab && ba), "cmp/asymmetric", "a<b and b<a");
		VP_CHECK(!(ab && bc) || ac, "cmp/transitive", "a<b and b<c but not a<c");
		bool eab = a == b, ebc = b == c, eac = a == c;
		VP_CHECK(!(eab && ebc) || eac, "cmp/eq_transitive", "a==b and b==c but not a==c");
		VP_CHECK(!(eab && bc) || ac, "cmp/eq_lt_compatible", "a==b and b<c but not a<c");
		} else {
			bool eab = a == b, ebc = b == c, eac = a == c;
			VP_CHECK(!(eab && ebc) || eac, "cmp/eq_transitive", "a==b and b==c but not a==c");
		}
	}); }); });
	// --- two views of ONE array with the same origin element, the same extents and the same leading stride, but differently strided rows
	// (v1 = the left half of the columns, v2 = every second column): an identity shortcut on (base, leading stride) would call them equal
	if constexpr(D >= 2 && std::is_same_v<AA<int>, std::allocator<int>>) {
		if(ops[0].n() > 0) {
			long pe[D]; for(int k = 0; k < D; ++k) { pe[k] = ops[0].ext[static_cast<std::size_t>(k)]; } pe[D - 1] *= 2;
			multi::array<int, D> P(make_ext<D>(pe));
			{ long i = 0; for(auto& e : P.elements()) { e = pattern(&i, 1, salt + 1U) + static_cast<int>((i/3) % 2); ++i; } }
			long const c = ops[0].ext[static_cast<std::size_t>(D - 1)];
			auto&& v1 = P.unrotated().sliced(0, c).rotated();              // columns [0, c)
			auto&& v2 = P.unrotated().strided(2).rotated();                // columns 0, 2, 4, ...
			bool eq = true, lt = false, decided = false;
			{ auto i1 = v1.elements().begin(); auto i2 = v2.elements().begin(); for(long j = 0; j < ops[0].n(); ++j, ++i1, ++i2) { if(*i1 != *i2) { eq = false; if(!decided) { lt = *i1 < *i2; decided = true; } } } }
			Expect x{eq, lt, !eq && !lt, false};
			check_pair<true>(v1, v2, x, "views of one array: left half of the columns vs every second column");
			check_pair<true>(v2, v1, Expect{eq, !eq && !lt, lt, false}, "views of one array: every second column vs left half of the columns");
			ctx.label("pair_views_of_one_array");
		}
	}
	bool layouts_differ = vk(ka) != vk(kb);
	bool same_shape = ops[0].ext == ops[1].ext;
	ctx.nontrivial = !any_empty && ops[0].n() >= 2 && (layouts_differ || !same_shape);
	if(any_empty) { ctx.label("some_operand_empty"); }
	ctx.label(same_shape ? "ab_same_shape" : "ab_different_shape");
	if(!xab.empty) { ctx.label(xab.eq ? "ab_equal" : (xab.lt ? "ab_less" : "ab_greater")); }
	ctx.label(layouts_differ ? "ab_layouts_differ" : "ab_layouts_same");
	static char const* const dl[] = {"D0", "D1", "D2", "D3", "D4"};
	ctx.label(dl[D]);
}

// dimensionality 0: one element.  `array<T,0> == array<T,0>` (and !=) was an ambiguous overload on the pinned tree (repaired in /repo, see
// known_findings.txt): views A() op B() and the arrays themselves for all six operators, and array == element.
void run_d0(vp::Input const& in, vp::Ctx& ctx) {
	int va = in.head(1) % 3, vb = in.head(2) % 3, vc = in.head(3) % 3;
	ctx.desc << "D=0 A=" << va << " B=" << vb << " C=" << vc;
	multi::array<int, 0> A(va), B(vb), C(vc);
	Expect x{va == vb, va < vb, vb < va, false};
	check_pair<true>(A(), B(), x, "A() vs B()");
	check_pair<true>(std::as_const(A)(), B(), x, "const A() vs B()");
	VP_CHECK((A < B) == x.lt && (A > B) == x.gt && (A <= B) == (x.lt || x.eq) && (A >= B) == (x.gt || x.eq), "cmp/order0", "0-D arrays: ordering operators disagree with the elements " << va << "," << vb);
	VP_CHECK((A == vb) == x.eq && (A != vb) == !x.eq, "cmp/equal0_value", "0-D array == element");
	VP_CHECK((A == B) == x.eq && (A != B) == !x.eq && (std::as_const(A) == B) == x.eq && (B == A) == x.eq, "cmp/equal0_arrays", "0-D arrays: == / != disagree with the elements " << va << "," << vb);
	VP_CHECK(!((A() < B()) && (B() < C())) || (A() < C()), "cmp/transitive", "0-D transitivity");
	ctx.nontrivial = va != vb;
	ctx.label("D0");
}

}  // namespace vp::c07

