// vp/operands.hpp — realise a logical value (extents + canonical element sequence) as library objects of different layouts
// (shared by C05 sources, C07 operands, C17/C18)
#pragma once

#include "core.hpp"

#include <boost/multi/array.hpp>

#include <memory>
#include <numeric>

namespace vp::ops {

namespace multi = boost::multi;

// logical value: extents + elements in canonical order
struct Val {
	std::vector<long> ext;
	std::vector<int> v;
	long n() const { long r = 1; for(auto e : ext) { r *= e; } return r; }
};

// ---- model: nested-vector semantics computed on (offset, dim) recursively
inline bool m_equal(Val const& a, Val const& b) { return a.ext == b.ext && a.v == b.v; }

inline long sub_n(Val const& a, std::size_t dim) { long r = 1; for(std::size_t k = dim; k < a.ext.size(); ++k) { r *= a.ext[k]; } return r; }

// lexicographic order over the leading dimension, recursively; a proper prefix is smaller
inline bool m_less(Val const& a, long oa, Val const& b, long ob, std::size_t dim) {
	if(dim == a.ext.size()) { return a.v[static_cast<std::size_t>(oa)] < b.v[static_cast<std::size_t>(ob)]; }
	long na = a.ext[dim], nb = b.ext[dim];
	long sa = sub_n(a, dim + 1), sb = sub_n(b, dim + 1);
	for(long i = 0; i < std::min(na, nb); ++i) {
		if(m_less(a, oa + i*sa, b, ob + i*sb, dim + 1)) { return true; }
		if(m_less(b, ob + i*sb, a, oa + i*sa, dim + 1)) { return false; }
	}
	return na < nb;
}
inline bool m_less(Val const& a, Val const& b) { return m_less(a, 0, b, 0, 0); }

inline void print(vp::Txt& t, Val const& a) {
	t << '(';
	for(std::size_t k = 0; k < a.ext.size(); ++k) { if(k) { t << 'x'; } t << a.ext[k]; }
	t << ")[";
	for(std::size_t k = 0; k < a.v.size() && k < 40; ++k) { t << a.v[k]; }
	if(a.v.size() > 40) { t << ".."; }
	t << ']';
}

template<int D, std::size_t... I>
multi::extensions_t<D> make_ext(long const* e, std::index_sequence<I...>) { return multi::extensions_t<D>{multi::iextension{0, e[I]}...}; }
template<int D> multi::extensions_t<D> make_ext(long const* e) { return make_ext<D>(e, std::make_index_sequence<static_cast<std::size_t>(D)>{}); }

template<int D> long rowmajor(long const* ext, long const* t) { long p = 0; for(int k = 0; k < D; ++k) { p = p*ext[k] + t[k]; } return p; }

template<int D> bool next_tuple(long const* ext, long* t) {
	for(int k = D - 1; k >= 0; --k) { if(++t[k] < ext[k]) { return true; } t[k] = 0; }
	return false;
}

// (NKINDS is the number of kinds C07 draws from; the kinds after it are selected explicitly by the harnesses that want them)
enum Kind { K_ARRAY, K_REF, K_VIEW, K_TRANSPOSED, K_ROTATED, K_PADDED, K_STRIDED, K_LONG, K_CVIEW, NKINDS, K_INNER_STRIDED = NKINDS, K_REVERSED, K_PADDED_TRANSPOSED, NKINDS_EXT };
inline char const* const kind_name[] = {"array", "array_ref", "A()", "transposed-storage", "rotated-storage", "padded-block", "strided(2)", "array<long>", "const-A()",
                                        "inner-strided(2)", "reversed-storage", "padded-block-of-transposed-storage"};
// view layouts for harnesses that take any layout: plain, transposed, rotated, padded block, strided, inner-strided, reversed dimension order, padded block of transposed storage
inline constexpr int kLayoutKinds[8] = {K_VIEW, K_TRANSPOSED, K_ROTATED, K_PADDED, K_STRIDED, K_INNER_STRIDED, K_REVERSED, K_PADDED_TRANSPOSED};

template<class T> std::pair<T*, long>& last_parent() { static std::pair<T*, long> p{nullptr, 0}; return p; }

template<int D, class S, std::size_t... I>
decltype(auto) block_of(S&& s, long const* e, std::index_sequence<I...>) { return s(multi::irange{1, 1 + e[I]}...); }

template<class T> T* op_raw(T* p) { return p; }
template<class P> auto op_raw(P const& p) -> decltype(p.raw()) { return p.raw(); }  // the harness' fancy pointers expose raw()

// realise the value as a library object of the requested kind and call f(object const&); AllocT selects the pointer family of the parent storage
template<int D, class T, bool Mutable, template<class> class AllocT, class F>
void with_operand_a(Val const& a, int kind, F&& f_) {
	auto f = [&](auto& obj) { if constexpr(Mutable) { f_(obj); } else { f_(std::as_const(obj)); } };
	long e[D]; for(int k = 0; k < D; ++k) { e[k] = a.ext[static_cast<std::size_t>(k)]; }
	long se[D]; for(int k = 0; k < D; ++k) { se[k] = e[k]; }
	// extended kinds fall back to their nearest relative where the dimensionality does not offer them
	if(D < 2 && kind == K_INNER_STRIDED) { kind = K_STRIDED; }
	if(D < 2 && kind == K_PADDED_TRANSPOSED) { kind = K_PADDED; }
	if(D < 3 && kind == K_REVERSED) { kind = D == 2 ? K_TRANSPOSED : K_VIEW; }
	if(kind == K_INNER_STRIDED && e[D - 1] < 1) { kind = K_VIEW; }
	auto fillmap = [&](auto& S, auto&& map, T pad) {
		long n = 1; for(int k = 0; k < D; ++k) { n *= se[k]; }
		auto* p = op_raw(S.data_elements());
		last_parent<T>() = {p, n};  // lets a callback inspect the whole parent storage (guard cells around the view)
		for(long i = 0; i < n; ++i) { p[i] = pad; }
		if(a.n() == 0) { return; }
		long t[D] = {}; long st[D]; long idx = 0;
		do { map(t, st); p[rowmajor<D>(se, st)] = static_cast<T>(a.v[static_cast<std::size_t>(idx++)]); } while(next_tuple<D>(e, t));
	};
	auto ident = [](long const* t, long* st) { for(int k = 0; k < D; ++k) { st[k] = t[k]; } };
	if constexpr(D >= 2) {
		if(kind == K_TRANSPOSED) {
			std::swap(se[0], se[1]);
			multi::array<T, D, AllocT<T>> S(make_ext<D>(se));
			fillmap(S, [](long const* t, long* st) { for(int k = 0; k < D; ++k) { st[k] = t[k]; } std::swap(st[0], st[1]); }, T{7});
			auto&& w = S.transposed(); f(w); return;
		}
		if(kind == K_ROTATED) {
			for(int k = 0; k < D; ++k) { se[(k + 1) % D] = e[k]; }
			multi::array<T, D, AllocT<T>> S(make_ext<D>(se));
			fillmap(S, [](long const* t, long* st) { for(int k = 0; k < D; ++k) { st[(k + 1) % D] = t[k]; } }, T{7});
			auto&& w = S.rotated(); f(w); return;
		}
	}
	if constexpr(D >= 2) {
		if(kind == K_INNER_STRIDED && e[D - 1] >= 1) {  // non-unit stride in the *last* dimension: every second element of each innermost line
			se[D - 1] = 2*e[D - 1];
			multi::array<T, D, AllocT<T>> S(make_ext<D>(se));
			fillmap(S, [](long const* t, long* st) { for(int k = 0; k < D; ++k) { st[k] = t[k]; } st[D - 1] = 2*t[D - 1]; }, T{7});
			auto&& w = S.unrotated().strided(2).rotated(); f(w); return;
		}
		if(kind == K_PADDED_TRANSPOSED) {  // a block strictly inside a larger parent whose two leading dimensions are exchanged in storage
			for(int k = 0; k < D; ++k) { se[k] = e[k] + 2; } std::swap(se[0], se[1]);
			multi::array<T, D, AllocT<T>> S(make_ext<D>(se));
			fillmap(S, [](long const* t, long* st) { for(int k = 0; k < D; ++k) { st[k] = t[k] + 1; } std::swap(st[0], st[1]); }, T{7});
			auto&& w = block_of<D>(S.transposed(), e, std::make_index_sequence<static_cast<std::size_t>(D)>{}); f(w); return;
		}
	}
	if constexpr(D >= 3) {
		if(kind == K_REVERSED) {  // storage with the dimensions in reverse order
			for(int k = 0; k < D; ++k) { se[D - 1 - k] = e[k]; }
			multi::array<T, D, AllocT<T>> S(make_ext<D>(se));
			fillmap(S, [](long const* t, long* st) { for(int k = 0; k < D; ++k) { st[D - 1 - k] = t[k]; } }, T{7});
			auto&& w = S.reversed(); f(w); return;
		}
	}
	if(kind == K_PADDED) {
		for(int k = 0; k < D; ++k) { se[k] = e[k] + 2; }
		multi::array<T, D, AllocT<T>> S(make_ext<D>(se));
		fillmap(S, [](long const* t, long* st) { for(int k = 0; k < D; ++k) { st[k] = t[k] + 1; } }, T{7});
		auto&& w = block_of<D>(S, e, std::make_index_sequence<static_cast<std::size_t>(D)>{}); f(w); return;
	}
	if(kind == K_STRIDED && e[0] >= 1) {
		se[0] = 2*e[0];
		multi::array<T, D, AllocT<T>> S(make_ext<D>(se));
		fillmap(S, [](long const* t, long* st) { for(int k = 0; k < D; ++k) { st[k] = t[k]; } st[0] = 2*t[0]; }, T{7});
		auto&& w = S.strided(2);
		f(w); return;
	}
	if(kind == K_REF) {
		// an array_ref over storage of the configuration's pointer family (for raw pointers: over a plain buffer)
		AllocT<T> al; auto const nn = static_cast<std::size_t>(a.n()) + 1;
		auto fp = al.allocate(nn); T* rp = op_raw(fp);
		std::uninitialized_fill_n(rp, nn, T{7});
		struct Release { AllocT<T>& al; decltype(fp) fp; T* rp; std::size_t nn; ~Release() { std::destroy_n(rp, nn); al.deallocate(fp, nn); } } release{al, fp, rp, nn};
		multi::array_ref<T, D, decltype(fp)> R(make_ext<D>(e), fp);
		fillmap(R, ident, T{7});
		f(R); return;
	}
	multi::array<T, D, AllocT<T>> S(make_ext<D>(e));
	fillmap(S, ident, T{7});
	if(kind == K_ARRAY) { f(S); return; }
	if(kind == K_CVIEW) { if constexpr(!Mutable) { f_(std::as_const(S)()); return; } }  // view with pointer-to-const element pointer
	auto&& w = S(); f(w);
}
template<int D, class T = int, bool Mutable = false, class F>
void with_operand(Val const& a, int kind, F&& f_) { with_operand_a<D, T, Mutable, std::allocator>(a, kind, std::forward<F>(f_)); }

}  // namespace vp::ops
