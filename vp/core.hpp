// vp/core.hpp — shared harness core: one Input format, two engines (rapidcheck, libFuzzer), one replay format.
//
// A property TU defines
//     struct Prop { static constexpr const char* id; static constexpr int H, R, MAXOPS;
//                   static void run(vp::Input const&, vp::Ctx&); };
// and ends with VP_MAIN(Prop).  `run` decodes the bytes *totally* (every byte string is an in-domain case),
// executes the case against the library, compares with its oracle and throws vp::Fail on a mismatch.
//
// Build flavours:   default      -> main() with modes  rc | replay <file> | export <n> <dir>
//                   -DVP_FUZZ    -> LLVMFuzzerTestOneInput (libFuzzer), same decoder and oracle
#pragma once

#include <algorithm>
#include <array>
#include <charconv>
#include <cstdint>
#include <cstdio>
#include <cstdlib>
#include <cstring>
#include <fstream>
#include <map>
#include <set>
#include <sstream>
#include <string>
#include <unordered_set>
#include <vector>

#if defined(__has_include)
#if __has_include(<sanitizer/common_interface_defs.h>)
#include <sanitizer/common_interface_defs.h>
#define VP_HAVE_SAN_CB 1
#endif
#endif
#include <fcntl.h>
#include <signal.h>
#include <sys/resource.h>
#include <sys/wait.h>
#include <unistd.h>

namespace vp {

// ---------------------------------------------------------------------------------------------- failures
struct Fail {
	std::string key;  // stable class of the failure (operation kind / symptom), never addresses or seeds
	std::string msg;
};

[[noreturn]] inline void fail(std::string key, std::string msg) { throw Fail{std::move(key), std::move(msg)}; }

#define VP_STR2(x) #x
#define VP_STR(x) VP_STR2(x)
// VP_CHECK(cond, key, streamed message)
#define VP_CHECK(cond, key, ...)                                                            \
	do {                                                                                    \
		if(!(cond)) {                                                                       \
			std::ostringstream vp_os_;                                                      \
			vp_os_ << "check `" #cond "` failed at " __FILE__ ":" VP_STR(__LINE__) ": " << __VA_ARGS__; \
			::vp::fail((key), vp_os_.str());                                                \
		}                                                                                   \
	} while(0)

// known-findings mode: the exclusions that keep confirmed, recorded defects out of generation are lifted, so that the
// committed minimal inputs under corpus/<ID>/known/ can show that the finding is still present (driver prints KNOWN-FINDING)
inline bool known_mode() { static bool const k = std::getenv("VP_KNOWN") != nullptr; return k; }

// ---------------------------------------------------------------------------------------------- input
struct Input {
	std::vector<std::uint8_t> bytes;
	int H = 0, R = 4;
	std::uint8_t head(int i) const { return (i < H && static_cast<std::size_t>(i) < bytes.size()) ? bytes[static_cast<std::size_t>(i)] : 0; }
	int nops() const { return bytes.size() <= static_cast<std::size_t>(H) ? 0 : static_cast<int>((bytes.size() - static_cast<std::size_t>(H)) / static_cast<std::size_t>(R)); }
	std::uint8_t op(int k, int j) const { return bytes[static_cast<std::size_t>(H + k*R + j)]; }
};

// sequential reader over one op record or the header (returns 0 when exhausted)
struct Rd {
	std::uint8_t const* p; int n; int i = 0;
	Rd(std::uint8_t const* p_, int n_) : p(p_), n(n_) {}
	unsigned u8() { return i < n ? p[i++] : 0U; }
	unsigned below(unsigned m) { return m ? u8() % m : 0U; }
	bool bit() { return (u8() & 1U) != 0; }
};

// ---------------------------------------------------------------------------------------------- text helper
struct Txt {
	std::string s;
	Txt& operator<<(char const* c) { s += c; return *this; }
	Txt& operator<<(std::string const& c) { s += c; return *this; }
	Txt& operator<<(char c) { s += c; return *this; }
	Txt& operator<<(bool b) { s += b ? '1' : '0'; return *this; }
	template<class I, std::enable_if_t<std::is_integral_v<I> && !std::is_same_v<I, char> && !std::is_same_v<I, bool>, int> = 0>
	Txt& operator<<(I v) { char b[24]; auto r = std::to_chars(b, b + 24, v); s.append(b, r.ptr); return *this; }
};

inline std::uint64_t fnv1a(std::string const& s) {
	std::uint64_t h = 1469598103934665603ULL;
	for(unsigned char c : s) { h ^= c; h *= 1099511628211ULL; }
	return h;
}

// ---------------------------------------------------------------------------------------------- per-case context
struct Ctx {
	Txt desc;                 // canonical decoded case (human readable); its hash identifies the case
	bool nontrivial = false;  // set by the property according to its stated rule
	std::vector<char const*> labels;
	std::map<std::string, long> counters;  // added into the global counters
	std::string transcript;   // observable results (used by differential properties C11/C19/C20)
	bool want_transcript = false;
	void label(char const* l) { labels.push_back(l); }
	void count(char const* k, long n = 1) { counters[k] += n; }
};

// ---------------------------------------------------------------------------------------------- statistics
struct Stats {
	std::uint64_t evaluations = 0;
	std::unordered_set<std::uint64_t> nontrivial;
	std::unordered_set<std::uint64_t> all_hashes;
	std::map<std::string, std::uint64_t> labels;
	std::map<std::string, long> counters;
	std::vector<std::string> first_samples;                        // the first few cases
	std::map<std::uint64_t, std::string> nt_samples;               // the non-trivial cases with the smallest hashes
	std::string path;

	void record(Ctx const& c) {
		if(c.counters.count("inconclusive_infrastructure") != 0) { counters["inconclusive_infrastructure"] += 1; return; }  // the harness could not judge this case: not an evaluation
		++evaluations;
		auto h = fnv1a(c.desc.s);
		all_hashes.insert(h);
		if(first_samples.size() < 3) { first_samples.push_back(c.desc.s); }
		if(c.nontrivial) {
			nontrivial.insert(h);
			if(nt_samples.size() < 6 || h < nt_samples.rbegin()->first) {
				nt_samples.emplace(h, c.desc.s);
				if(nt_samples.size() > 6) { nt_samples.erase(std::prev(nt_samples.end())); }
			}
		}
		for(auto const* l : c.labels) { ++labels[l]; }
		for(auto const& kv : c.counters) { counters[kv.first] += kv.second; }
	}

	static std::string esc(std::string const& s) {
		std::string o;
		for(char ch : s) {
			auto c = static_cast<unsigned char>(ch);
			if(c == '"' || c == '\\') { o += '\\'; o += ch; }
			else if(c == '\n') { o += "\\n"; }
			else if(c < 0x20 || c >= 0x7f) { char b[8]; std::snprintf(b, sizeof b, "\\u%04x", c); o += b; }
			else { o += ch; }
		}
		return o;
	}

	void dump() const {
		if(path.empty()) { return; }
		std::string tmp = path + ".tmp";
		{
			std::ofstream f(tmp);
			f << "{\"evaluations\":" << evaluations << ",\"distinct\":" << all_hashes.size() << ",\"nontrivial\":" << nontrivial.size() << ",\"labels\":{";
			bool first = true;
			for(auto const& kv : labels) { f << (first ? "" : ",") << '"' << esc(kv.first) << "\":" << kv.second; first = false; }
			f << "},\"counters\":{";
			first = true;
			for(auto const& kv : counters) { f << (first ? "" : ",") << '"' << esc(kv.first) << "\":" << kv.second; first = false; }
			f << "},\"samples\":[";
			first = true;
			for(auto const& s : first_samples) { f << (first ? "" : ",") << '"' << esc(s) << '"'; first = false; }
			for(auto const& kv : nt_samples) { f << (first ? "" : ",") << '"' << esc(kv.second) << '"'; first = false; }
			f << "]}\n";
		}
		std::rename(tmp.c_str(), path.c_str());
		std::ofstream g(path + ".nt", std::ios::binary);
		for(auto h : nontrivial) { g.write(reinterpret_cast<char const*>(&h), sizeof h); }
	}
};

inline Stats& stats() { static Stats s; return s; }

inline std::vector<std::uint8_t> read_file(char const* path) {
	std::ifstream f(path, std::ios::binary);
	return std::vector<std::uint8_t>((std::istreambuf_iterator<char>(f)), std::istreambuf_iterator<char>());
}
inline void write_file(std::string const& path, std::vector<std::uint8_t> const& b) {
	std::ofstream f(path, std::ios::binary);
	f.write(reinterpret_cast<char const*>(b.data()), static_cast<std::streamsize>(b.size()));
}
inline void write_text(std::string const& path, std::string const& s) { std::ofstream f(path); f << s; }

// ---------------------------------------------------------------------------------------------- running one case
struct Outcome { bool ok = true; std::string key, msg, desc; };

// in a forked child: on abort (library assertion, sanitizer with abort_on_error) ship the partial case description first
inline Ctx*& current_ctx() { static Ctx* c = nullptr; return c; }
inline int& crash_fd() { static int fd = -1; return fd; }
inline void ship_desc() {
	if(crash_fd() >= 0 && current_ctx() != nullptr) {
		auto const& s = current_ctx()->desc.s;
		(void)!write(crash_fd(), "C\x1f\x1f", 3);
		(void)!write(crash_fd(), s.data(), s.size());
		crash_fd() = -1;
	}
}
inline void on_abort(int sig) {
	ship_desc();
	signal(sig, SIG_DFL);
	raise(sig);
}

// A case whose *harness* could not do its work (fork refused under memory pressure, no scratch file, a forked helper timed out under load):
// never a failure of the property, never counted as an evaluation; the count is reported in the evidence ("inconclusive_infrastructure").
struct Inconclusive { std::string why; };

// fork() of a sanitizer-instrumented process can fail transiently (ENOMEM / EAGAIN under load): retry with back-off before giving up
inline pid_t fork_retry() {
	for(int attempt = 0; attempt < 12; ++attempt) {
		pid_t pid = fork();
		if(pid >= 0) { return pid; }
		usleep(static_cast<useconds_t>(50000 * (attempt + 1)));
	}
	return -1;
}

// first thing in a helper process forked *by a harness* (death tests, per-case children): in fork mode it inherits the case runner's crash reporting,
// and its expected abort must not be reported through the runner's result pipe
inline void detach_crash_reporting() {
	crash_fd() = -1;
	signal(SIGABRT, SIG_DFL); signal(SIGSEGV, SIG_DFL); signal(SIGBUS, SIG_DFL); signal(SIGFPE, SIG_DFL); signal(SIGILL, SIG_DFL);
}

template<class Prop>
Outcome run_inproc(std::vector<std::uint8_t> const& bytes, bool record) {
	Input in; in.bytes = bytes; in.H = Prop::H; in.R = Prop::R;
	Ctx ctx;
	Outcome o;
	current_ctx() = &ctx;
	try {
		Prop::run(in, ctx);
	} catch(Fail const& f) {
		o.ok = false; o.key = f.key; o.msg = f.msg;
	} catch(Inconclusive const& i) {
		ctx.nontrivial = false; ctx.labels.clear(); ctx.count("inconclusive_infrastructure"); ctx.desc << " [inconclusive: " << i.why << "]";
	}
	current_ctx() = nullptr;
	o.desc = ctx.desc.s;
	if(record && o.ok) { stats().record(ctx); }
	return o;
}

// run the case in a forked child, so that a crash (sanitizer report, assertion, terminate) becomes an ordinary failure
template<class Prop>
Outcome run_forked(std::vector<std::uint8_t> const& bytes) {
	int fd[2];
	if(pipe(fd) != 0) { std::perror("pipe"); std::exit(3); }
	char errpath[] = "/dev/shm/vp_err_XXXXXX";
	int efd = mkstemp(errpath);
	std::fflush(nullptr);
	pid_t pid = fork_retry();
	if(pid < 0) { std::perror("fork"); std::exit(3); }
	if(pid == 0) {
		close(fd[0]);
		if(efd >= 0) { dup2(efd, 2); }
		// a case is a handful of operations on arrays of a few hundred elements: 6 s of CPU time (not wall-clock: the machine may be loaded) means it does not
		// terminate; the wall-clock alarm is only a backstop against a blocked child
		{ struct rlimit rl; rl.rlim_cur = 6; rl.rlim_max = 8; setrlimit(RLIMIT_CPU, &rl); }
		alarm(300);
		crash_fd() = fd[1];
#ifdef VP_HAVE_SAN_CB
		__sanitizer_set_death_callback(ship_desc);
#endif
		signal(SIGABRT, on_abort); signal(SIGSEGV, on_abort); signal(SIGBUS, on_abort); signal(SIGFPE, on_abort); signal(SIGILL, on_abort);
		Outcome o = run_inproc<Prop>(bytes, false);
		crash_fd() = -1;
		std::string pay = (o.ok ? std::string("P") : std::string("F")) + o.key + "\x1f" + o.msg + "\x1f" + o.desc;
		(void)!write(fd[1], pay.data(), pay.size());
		_exit(o.ok ? 0 : 1);
	}
	close(fd[1]);
	std::string pay; char buf[4096]; ssize_t k;
	while((k = read(fd[0], buf, sizeof buf)) > 0) { pay.append(buf, static_cast<std::size_t>(k)); }
	close(fd[0]);
	int st = 0; waitpid(pid, &st, 0);
	std::string err;
	if(efd >= 0) {
		off_t sz = lseek(efd, 0, SEEK_END);
		off_t from = sz > 6000 ? 0 : 0;
		lseek(efd, from, SEEK_SET);
		std::string all; while((k = read(efd, buf, sizeof buf)) > 0 && all.size() < 8000) { all.append(buf, static_cast<std::size_t>(k)); }
		err = all; close(efd); unlink(errpath);
	}
	Outcome o;
	auto split = [&](std::string const& p) {
		auto a = p.find('\x1f'); auto b = p.find('\x1f', a == std::string::npos ? 0 : a + 1);
		if(a == std::string::npos || b == std::string::npos) { return; }
		o.key = p.substr(1, a - 1); o.msg = p.substr(a + 1, b - a - 1); o.desc = p.substr(b + 1);
	};
	if(WIFEXITED(st) && WEXITSTATUS(st) == 0 && !pay.empty() && pay[0] == 'P') { o.ok = true; split(pay); return o; }
	o.ok = false;
	if(WIFEXITED(st) && WEXITSTATUS(st) == 1 && !pay.empty() && pay[0] == 'F') { split(pay); return o; }
	// crashed: classify
	if(!pay.empty() && pay[0] == 'C') { split(pay); }
	std::string what;
	if(WIFSIGNALED(st)) { what = "signal" + std::to_string(WTERMSIG(st)); } else { what = "exit" + std::to_string(WEXITSTATUS(st)); }
	std::string cls = "unknown";
	auto pos = err.find("Assertion `");
	if(pos != std::string::npos) {
		// "<prog>: <file>:<line>: <func>: Assertion `expr' failed."  -> keep file basename and the start of the expression
		auto ls = err.rfind('\n', pos); ls = (ls == std::string::npos) ? 0 : ls + 1;
		auto sp = err.find(": ", ls);
		std::string file = "?";
		if(sp != std::string::npos && sp < pos) {
			auto c1 = err.find(':', sp + 2);
			file = err.substr(sp + 2, c1 == std::string::npos ? 0 : c1 - sp - 2);
			auto sl = file.rfind('/'); if(sl != std::string::npos) { file = file.substr(sl + 1); }
		}
		std::string ex = err.substr(pos + 11, 48);
		auto q = ex.find('\''); if(q != std::string::npos) { ex = ex.substr(0, q); }
		for(auto& ch : ex) { if(ch == ' ' || ch == '\n') { ch = '_'; } }
		cls = "assert@" + file + ":" + ex;
	} else if((pos = err.find("ERROR: AddressSanitizer: ")) != std::string::npos) {
		auto e = err.find_first_of(" \n", pos + 25);
		cls = "asan:" + err.substr(pos + 25, e - (pos + 25));
	} else if((pos = err.find("runtime error: ")) != std::string::npos) {
		std::string ex = err.substr(pos + 15, 60);
		auto nl = ex.find('\n'); if(nl != std::string::npos) { ex = ex.substr(0, nl); }
		std::string cl;
		for(char ch : ex) { if(ch >= '0' && ch <= '9') { continue; } cl += (ch == ' ') ? '_' : ch; }
		cls = "ubsan:" + cl;
	} else if(err.find("terminate called") != std::string::npos) {
		cls = "terminate";
	} else if(WIFSIGNALED(st) && (WTERMSIG(st) == SIGXCPU || WTERMSIG(st) == SIGKILL)) {
		cls = "cpu_time_limit";  // the case did not terminate within 6 s of CPU time
	} else if(WIFSIGNALED(st) && WTERMSIG(st) == SIGALRM) {
		cls = "wall_time_limit";
	}
	o.key = "crash/" + cls;
	o.msg = "child died (" + what + "); stderr:\n" + err.substr(0, 3000);
	return o;
}

}  // namespace vp

// ================================================================================================ engines
#ifdef VP_FUZZ

#define VP_MAIN(Prop)                                                                                     \
	extern "C" int LLVMFuzzerInitialize(int*, char***) {                                                   \
		if(char const* d = std::getenv("VP_STATS_DIR")) {                                                 \
			::vp::stats().path = std::string(d) + "/fz." + std::to_string(getpid()) + ".json";            \
			std::atexit([] { ::vp::stats().dump(); });                                                    \
		}                                                                                                 \
		return 0;                                                                                         \
	}                                                                                                     \
	extern "C" int LLVMFuzzerTestOneInput(std::uint8_t const* data, std::size_t size) {                   \
		std::vector<std::uint8_t> b(data, data + size);                                                   \
		auto o = ::vp::run_inproc<Prop>(b, true);                                                         \
		if((::vp::stats().evaluations & 0x3fffU) == 0) { ::vp::stats().dump(); }                          \
		if(!o.ok) {                                                                                       \
			std::fprintf(stderr, "VP-FAIL key=%s\n%s\ncase: %s\n", o.key.c_str(), o.msg.c_str(), o.desc.c_str()); \
			::vp::stats().dump();                                                                         \
			__builtin_trap();                                                                             \
		}                                                                                                 \
		return 0;                                                                                         \
	}

#else  // rapidcheck / replay driver

#include <rapidcheck.h>

namespace vp {

template<class Prop>
rc::Gen<std::vector<std::uint8_t>> gen_input() {
	// inRange scales with rapidcheck's size parameter (small sizes give small values): pin the size so that every byte is uniform over 0..255
	auto byte = rc::gen::resize(1000, rc::gen::map(rc::gen::inRange<int>(0, 256), [](int v) { return static_cast<std::uint8_t>(v); }));
	auto head = rc::gen::container<std::vector<std::uint8_t>>(static_cast<std::size_t>(Prop::H), byte);
	auto rec  = rc::gen::container<std::vector<std::uint8_t>>(static_cast<std::size_t>(Prop::R), byte);
	auto ops  = rc::gen::resize(Prop::MAXOPS, rc::gen::container<std::vector<std::vector<std::uint8_t>>>(rec));
	return rc::gen::map(rc::gen::pair(head, ops), [](std::pair<std::vector<std::uint8_t>, std::vector<std::vector<std::uint8_t>>> const& p) {
		std::vector<std::uint8_t> b = p.first;
		for(auto const& r : p.second) { b.insert(b.end(), r.begin(), r.end()); }
		return b;
	});
}

template<class Prop>
int main_impl(int argc, char** argv) {
	std::string mode = argc > 1 ? argv[1] : "";
	if(mode == "replay" && argc > 2) {
		bool forked = argc > 3 && std::string(argv[3]) == "--fork";
		auto b = read_file(argv[2]);
		Outcome o = forked ? run_forked<Prop>(b) : run_inproc<Prop>(b, false);
		std::printf("case: %s\n", o.desc.c_str());
		if(!o.ok) { std::printf("FAIL key=%s\n%s\n", o.key.c_str(), o.msg.c_str()); return 1; }
		std::printf("PASS\n");
		return 0;
	}
	if(mode == "export" && argc > 3) {  // write n generated inputs into a directory (fuzzer seed corpus)
		int n = std::atoi(argv[2]); std::string dir = argv[3];
		int k = 0;
		rc::check([&] { auto b = *gen_input<Prop>(); if(k < n) { write_file(dir + "/seed" + std::to_string(k++), b); } });
		return 0;
	}
	if(mode == "rc") {
		// rc <stats.json> <failure-prefix> [--fork]
		std::string statsp = argc > 2 ? argv[2] : "";
		std::string outp   = argc > 3 ? argv[3] : "";
		bool forked = argc > 4 && std::string(argv[4]) == "--fork";
		stats().path = statsp;
		std::vector<std::uint8_t> last; Outcome lasto;
		bool ok = rc::check(std::string(Prop::id), [&] {
			auto b = *gen_input<Prop>();
			Outcome o = forked ? run_forked<Prop>(b) : run_inproc<Prop>(b, true);
			if(!o.ok) { last = b; lasto = o; RC_FAIL(o.key + ": " + o.msg); }
		});
		stats().dump();
		if(!ok) {
			if(!outp.empty()) {
				write_file(outp + ".bin", last);
				write_text(outp + ".txt", "key=" + lasto.key + "\ncase: " + lasto.desc + "\n" + lasto.msg + "\n");
			}
			std::printf("FALSIFIED key=%s\n", lasto.key.c_str());
			return 1;
		}
		return 0;
	}
	std::fprintf(stderr, "usage: %s rc <stats> <failprefix> [--fork] | replay <file> [--fork] | export <n> <dir>\n", argv[0]);
	return 2;
}

}  // namespace vp

#define VP_MAIN(Prop) \
	int main(int argc, char** argv) { return ::vp::main_impl<Prop>(argc, argv); }

#endif
