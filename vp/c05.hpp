// vp/c05.hpp — C05 case function (assignment through views), templated over a configuration so that C19 replays the same programs on re-based roots:
// there every source operand is given the destination's index bases (reindexed), because the library asserts equal *extensions* for view assignment
#pragma once

#include "c01.hpp"
#include "operands.hpp"
#include "instr.hpp"

namespace vp::c05 {

using vp::Model; using vp::Ctx; using vp::Input;
namespace multi = boost::multi;

template<int D, class W, std::size_t... I>
decltype(auto) rebased(W& w0, Model const& m, std::index_sequence<I...> /*unused*/) { return w0.reindexed(static_cast<multi::index>(m.d[I].first)...); }

template<class X> struct is_exact_ref : std::false_type {};
template<class T, multi::dimensionality_type D, class P, class L> struct is_exact_ref<multi::array_ref<T, D, P, L>> : std::true_type {};

inline int val(int x) { return x; }
inline int val(vp::Tracked const& x) { return x.v; }

enum Form { F_ASSIGN_VIEW, F_ASSIGN_VIEW_RVALUE, F_ASSIGN_ARRAY, F_ASSIGN_LONG, F_ELEMENTS, F_FILL, F_SWAP, F_ILIST, F_ELEMENT_MOVED, F_MOVED_SUBVIEW, F_ASSIGN_RANGE, NFORMS };
char const* const form_name[] = {"v = w", "move(v) = w", "v = array", "v = array<long>", "v.elements() = w.elements()", "v.fill(x)", "swap(v, w)", "v = {..}", "v = w.element_moved()", "v = move(root)[..]", "v.assign(it)"};

// the destination: any view produced by the C01 generator over a root with sentinel contents
template<class T, class Cfg>
struct Fin {
	static constexpr bool Based = Cfg::based;
	static constexpr bool Fancy = !std::is_same_v<typename Cfg::template ptr<T>, T*>;
	T* root; long N; Ctx& ctx; Input const& in; void const* root_data; std::vector<long> root_ext;
	bool done = false;

	template<class V, class I>
	void operator()(V& v, Model& m, I& /*interp*/) {
		constexpr int D = vp::rank_of<V>;
		ctx.desc << " => "; m.print(ctx.desc);
		if constexpr(std::is_const_v<V> || vp::is_csub<V>::value || !std::is_same_v<typename V::element_ptr, typename Cfg::template ptr<T>>) {
			ctx.count("destination_not_mutable"); ctx.label("dest_not_mutable");  // read-only destination: nothing to assign (C16's subject)
			return;
		} else {
			if(m.empty()) { ctx.label("dest_empty"); }
			if constexpr(vp::is_owning<V>::value) { auto&& vv = v(); run<D>(vv, m); }  // assignment *to an array* may resize (C04); here the destination is a view of it
			else { run<D>(v, m); }
		}
	}

	template<int D, class V>
	void run(V& v, Model const& m) {
		unsigned form = in.head(10) % NFORMS;
		unsigned skind = in.head(11);
		int salt = in.head(9) % 7;
		// logical source value with the destination's extents
		vp::ops::Val src; src.ext.resize(static_cast<std::size_t>(D));
		for(int k = 0; k < D; ++k) { src.ext[static_cast<std::size_t>(k)] = m.d[static_cast<std::size_t>(k)].size; }
		long const n = m.nelems();
		src.v.resize(static_cast<std::size_t>(n));
		for(long j = 0; j < n; ++j) { src.v[static_cast<std::size_t>(j)] = 1000 + static_cast<int>((j*7 + salt) % 500); }
		// expected root contents
		std::vector<int> before(static_cast<std::size_t>(N)); for(long i = 0; i < N; ++i) { before[static_cast<std::size_t>(i)] = val(root[i]); }
		std::vector<int> want = before;
		std::vector<long> pos;  // model positions of the destination in canonical order
		if(n > 0) { long ord[D] = {}; do { pos.push_back(m.pos(ord)); } while(vp::next_ord(m, ord)); }
		{ auto sorted = pos; std::sort(sorted.begin(), sorted.end()); VP_CHECK(std::adjacent_find(sorted.begin(), sorted.end()) == sorted.end(), "harness/overlap", "destination view designates an element twice"); }
		if(n == 0 && form != F_FILL && form != F_ELEMENTS) {
			// a source built from the reported extents of a zero-element view (e.g. (1,0)) reports collapsed extents itself ((0,0)), and the library compares the leading
			// extension before assigning: the "equal extents" premise of the property cannot be constructed for these shapes; only fill / elements() are exercised on them
			ctx.count("zero_element_destination_skipped"); return;
		}
		ctx.desc << " ; " << form_name[form];
		bool src_noncontig = false;
		auto expect_src = [&] { for(long j = 0; j < n; ++j) { want[static_cast<std::size_t>(pos[static_cast<std::size_t>(j)])] = src.v[static_cast<std::size_t>(j)]; } };
		auto check_src_unchanged = [&](auto const& w) {
			long j = 0; for(auto const& e : w.elements()) { VP_CHECK(val(e) == src.v[static_cast<std::size_t>(j)], "assign/source_modified", "source element " << j << " changed from " << src.v[static_cast<std::size_t>(j)] << " to " << val(e)); ++j; }
		};
		// source operands: zero-based objects of operands.hpp; on re-based destinations they are given the destination's index bases
		auto with_src = [&](auto tag_t, auto tag_mut, int k, auto&& body) {
			using TT = typename decltype(tag_t)::type;
			auto run_body = [&](auto&& w0) {
				// (an array_ref over a fancy pointer is never selected as a source here -- K_REF is mapped to K_VIEW below -- and its element_moved() does not
				//  instantiate for class-type pointers: compile-level finding of C11, probes/C11_ref_element_moved.cpp)
				if constexpr(Fancy && is_exact_ref<std::decay_t<decltype(w0)>>::value) { (void)w0; }
				else if constexpr(Based) { auto&& w = rebased<D>(w0, m, std::make_index_sequence<static_cast<std::size_t>(D)>{}); body(w); }
				else { body(w0); }
			};
			// over a fancy-pointer configuration half of the sources live in storage of the same pointer family (the other half are raw-pointer views: mixed assignment)
			if constexpr(Fancy) { if((skind & 32U) != 0 && k != vp::ops::K_REF) { ctx.label("source_same_pointer_family"); vp::ops::with_operand_a<D, TT, decltype(tag_mut)::value, Cfg::template alloc>(src, k, run_body); return; } ctx.label("source_raw_pointer"); }
			vp::ops::with_operand<D, TT, decltype(tag_mut)::value>(src, k, run_body);
		};
		struct tag_T { using type = T; }; struct tag_long { using type = long; };
		int kind = vp::ops::kLayoutKinds[(skind & 31U) % 8U];  // views of various layouts
		switch(form) {
			case F_ASSIGN_VIEW: case F_ASSIGN_VIEW_RVALUE: case F_ELEMENTS: case F_ASSIGN_RANGE: {
				ctx.desc << " from " << vp::ops::kind_name[kind];
				src_noncontig = kind != vp::ops::K_VIEW;
				bool elements_moved = false;
				with_src(tag_T{}, std::true_type{}, kind, [&](auto& w) {
					if(form == F_ASSIGN_VIEW) { if((skind & 64U) != 0) { v = w; } else { v = std::as_const(w); } }
					else if(form == F_ASSIGN_VIEW_RVALUE) { std::move(v) = w; }
					else if(form == F_ELEMENTS) {
						// the element ranges themselves: temporary and *named* destination range, plain and element-moving source range
						unsigned ev = (in.head(9) / 7U) % 4U;
						// (array_ref::elements() is a flat 1-D array_ref, not an element range: a range assigned to it goes through the generic range assignment, which reads
						//  through const iterators and therefore copies from an element-moving range -- observation in DESIGN 11.7, not claimed by the property; plain sources there)
						if constexpr(is_exact_ref<V>::value) { if(ev >= 2) { ev -= 2; ctx.count("element_moving_range_into_flat_array_ref_not_generated"); } }
						// (over fancy pointers element-moving *ranges* do not instantiate: same move_ptr<T, P> conversion as the recorded compile-level finding of C11)
						if constexpr(Fancy) { if(ev >= 2) { ev -= 2; ctx.count("excluded_fancy_element_moving_range"); } }
						static char const* const en[] = {"", " (named destination range)", " (element-moving source range)", " (named destination range, element-moving source range)"};
						ctx.desc << en[ev];
						long const copies0 = vp::obs().assign_copy + vp::obs().ctor_copy;
						if(ev == 0) { v.elements() = w.elements(); }
						else if(ev == 1) { auto&& d = v.elements(); d = w.elements(); }
						else if constexpr(!Fancy) { if(ev == 2) { v.elements() = w.element_moved().elements(); } else { auto&& d = v.elements(); d = w.element_moved().elements(); } }
						if constexpr(std::is_same_v<T, vp::Tracked>) { if(ev >= 2) {
							for(auto const& e : w.elements()) { VP_CHECK(e.v == -1, "assign/not_moved_from", "an element of the element-moving source range was copied, not moved (value " << e.v << ")"); }
							VP_CHECK(vp::obs().assign_copy + vp::obs().ctor_copy == copies0, "assign/moved_copies", "assignment from an element-moving range performed element copies");
							elements_moved = true;
						} }
					}
					else { if(n > 0) { std::move(v).assign(w.begin()); } }
					if(!elements_moved) { check_src_unchanged(w); }
				});
				expect_src();
				break;
			}
			case F_ASSIGN_ARRAY: {
				with_src(tag_T{}, std::true_type{}, vp::ops::K_ARRAY, [&](auto& w) { if((skind & 64U) != 0) { v = w; } else { v = std::as_const(w); } check_src_unchanged(w); });
				expect_src();
				break;
			}
			case F_ASSIGN_LONG: {
				if constexpr(std::is_same_v<T, int>) {
					int k2 = (skind & 1U) ? vp::ops::K_ARRAY : kind;
					ctx.desc << " from " << vp::ops::kind_name[k2];
					with_src(tag_long{}, std::false_type{}, k2, [&](auto const& w) { v = w; });
					expect_src();
				}
				break;
			}
			case F_FILL: {
				int x = 2000 + salt;
				if constexpr(D == 1) {  // fill(value) of a D >= 2 view assigns the value to proxy rows and does not instantiate on the pinned tree: 1-D only
					v.fill(T(x));
					for(long j = 0; j < n; ++j) { want[static_cast<std::size_t>(pos[static_cast<std::size_t>(j)])] = x; }
				}
				break;
			}
			case F_SWAP: {
				ctx.desc << " with " << vp::ops::kind_name[kind];
				with_src(tag_T{}, std::true_type{}, kind, [&](auto& w) {
					if constexpr(std::is_same_v<std::remove_reference_t<decltype(w)>, V>) {
						if((skind & 64U) != 0) { std::move(v).swap(std::move(w)); } else { using std::swap; swap(std::move(v), std::move(w)); }
						long j = 0; for(auto const& e : w.elements()) { VP_CHECK(val(e) == before[static_cast<std::size_t>(pos[static_cast<std::size_t>(j)])], "assign/swap_source", "after swap the other view's element " << j << " is " << val(e) << ", expected the destination's old " << before[static_cast<std::size_t>(pos[static_cast<std::size_t>(j)])]); ++j; }
						expect_src();
					} else { ctx.count("swap_skipped_type_mismatch"); }
				});
				break;
			}
			case F_ILIST: {
				if constexpr(D == 1) {
					if(n == 3) { v = {T(src.v[0]), T(src.v[1]), T(src.v[2])}; expect_src(); }
					else if(n == 1) { v = {T(src.v[0])}; expect_src(); }
					else { ctx.count("ilist_skipped"); }
				} else { ctx.count("ilist_skipped"); }
				break;
			}
			case F_ELEMENT_MOVED: case F_MOVED_SUBVIEW: {
				ctx.desc << " from " << vp::ops::kind_name[kind];
				bool moved_skipped = false;
				with_src(tag_T{}, std::true_type{}, kind, [&](auto& w) {
					long const copies0 = vp::obs().assign_copy + vp::obs().ctor_copy;
					// array_ref<T, D, fancy> = fancy_view.element_moved() does not instantiate (array_ref<.., move_ptr<T, fancy>>::data_elements() const needs two
					// user-defined conversions): compile-level finding of C11, probes/C11_ref_element_moved.cpp; counted
					if constexpr(Fancy && is_exact_ref<V>::value && !std::is_same_v<typename std::decay_t<decltype(w)>::element_ptr, T*>) { ctx.count("excluded_fancy_array_ref_from_element_moved"); moved_skipped = true; return; }
					else {
					if((skind & 64U) != 0) { v = w.element_moved(); } else { std::move(v) = w.element_moved(); }  // named and temporary destination
					}
					long const copies1 = vp::obs().assign_copy + vp::obs().ctor_copy;
					(void)copies0; (void)copies1;
					if constexpr(std::is_same_v<T, vp::Tracked>) {  // moving from a view moves from exactly the viewed elements
						for(auto const& e : w.elements()) { VP_CHECK(e.v == -1, "assign/not_moved_from", "an element of the moved source view was copied, not moved (value " << e.v << ")"); }
						VP_CHECK(copies1 == copies0, "assign/moved_copies", "assignment from element_moved() performed " << (copies1 - copies0) << " element copies");
					}
				});
				if(!moved_skipped) { expect_src(); }
				break;
			}
			default: break;
		}
		// the root: exactly the viewed elements changed
		for(long i = 0; i < N; ++i) {
			VP_CHECK(val(root[i]) == want[static_cast<std::size_t>(i)], "assign/root_contents", "root element " << i << " is " << val(root[i]) << ", expected " << want[static_cast<std::size_t>(i)]
				<< (want[static_cast<std::size_t>(i)] == before[static_cast<std::size_t>(i)] ? " (must be untouched)" : " (assigned)"));
		}
		if constexpr(std::is_same_v<T, vp::Tracked>) { VP_CHECK(vp::obs().errors.empty(), "assign/lifetime", vp::obs().errors.front()); }
		done = true;
		ctx.nontrivial = n >= 2 && (src_noncontig || !m.compact_rowmajor()) && form != F_FILL && form != F_ILIST;
		ctx.label(form_name[form]);
	}
};

template<class Cfg, class T, int D>
void run_td(Input const& in, Ctx& ctx) {
	vp::obs().reset();
	ctx.desc << (std::is_same_v<T, int> ? "int " : "Tracked ");
	auto r = vp::decode_root<D, Cfg::based>(in, ctx);
	r.kind = (r.kind % 3 == 0) ? vp::RK_ARRAY : (r.kind % 3 == 1 ? vp::RK_STATIC : vp::RK_REF);  // mutable roots only
	vp::with_root<Cfg, T, D, true>(r, [&](auto& root, Model m, T const* base, long N) {
		auto* wbase = const_cast<T*>(base);
		for(long i = 0; i < N; ++i) { wbase[i] = T(static_cast<int>(i)); }
		Fin<T, Cfg> fin{wbase, N, ctx, in, static_cast<void const*>(base), {}};
		vp::Interp<Fin<T, Cfg>, Cfg::based, 5, false, true> interp(in, ctx, fin);
		interp.null_root = (N == 0);
		interp.no_const = true;
		long sz0[D]; vp::lib_sizes(root, sz0);
		vp::check_shape(root, m, "construction");
		interp.step(root, m);
		VP_CHECK(static_cast<void const*>(vp::raw_ptr(root.data_elements())) == static_cast<void const*>(base), "assign/root_rebound", "the root's data_elements() changed");
		long sz1[D]; vp::lib_sizes(root, sz1);
		for(int k = 0; k < D; ++k) { VP_CHECK(sz0[k] == sz1[k], "assign/root_resized", "the root's extent " << k << " changed from " << sz0[k] << " to " << sz1[k]); }
	});
}

template<class Cfg>
void run_c05(Input const& in, Ctx& ctx) {
	bool tr = (in.head(12) % 4U) == 0;
	switch(in.head(1) % 3) {
		case 0: tr ? run_td<Cfg, vp::Tracked, 1>(in, ctx) : run_td<Cfg, int, 1>(in, ctx); break;
		case 1: tr ? run_td<Cfg, vp::Tracked, 2>(in, ctx) : run_td<Cfg, int, 2>(in, ctx); break;
		default: run_td<Cfg, int, 3>(in, ctx); break;
	}
}
}  // namespace vp::c05
