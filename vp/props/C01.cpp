// C01 — view algebra: every composed view has the prescribed shape and elements
#include "../c01.hpp"

struct Prop {
	static constexpr char const* id = "C01";
	static constexpr int H = 12, R = 4, MAXOPS = 12;
	static void run(vp::Input const& in, vp::Ctx& ctx) { vp::run_c01<vp::CfgRaw>(in, ctx); }
};
VP_MAIN(Prop)
