// C15 — FFTW adaptor equals the direct DFT on any strided views and dimension subset
#include "../operands.hpp"

#include <boost/multi/adaptors/fftw.hpp>

#include <complex>
#include <set>

namespace {
namespace multi = boost::multi;
using vp::Ctx; using vp::Input;
using cplx = std::complex<double>;
constexpr double kPi = 3.14159265358979323846;

// direct evaluation of the unnormalised DFT with the given sign along the selected dimensions (separable: one dimension after the other)
template<int D>
std::vector<cplx> direct_dft(std::vector<cplx> x, long const* ext, bool const* which, int sign) {
	long n = 1; for(int k = 0; k < D; ++k) { n *= ext[k]; }
	for(int dim = 0; dim < D; ++dim) {
		if(!which[dim]) { continue; }
		long stride = 1; for(int k = dim + 1; k < D; ++k) { stride *= ext[k]; }
		long const len = ext[dim];
		std::vector<cplx> y(x.size());
		for(long base = 0; base < n; ++base) {
			long const pos = (base/stride) % len;
			if(pos != 0) { continue; }  // base is the start of a line along `dim`
			for(long k = 0; k < len; ++k) {
				cplx s{0, 0};
				for(long j = 0; j < len; ++j) { double ang = static_cast<double>(sign)*2.0*kPi*static_cast<double>((j*k) % len)/static_cast<double>(len); s += x[static_cast<std::size_t>(base + j*stride)]*cplx{std::cos(ang), std::sin(ang)}; }
				y[static_cast<std::size_t>(base + k*stride)] = s;
			}
		}
		x = y;
	}
	return x;
}

template<class V> std::vector<cplx> read(V const& v) { std::vector<cplx> r; for(auto const& e : v.elements()) { r.push_back(e); } return r; }

template<int D>
void run_d(Input const& in, Ctx& ctx) {
	// small extents mostly; now and then one that FFTW does not handle with a single codelet (composite / larger sizes go through multi-step plans)
	static constexpr long kExtT[16] = {1, 2, 3, 4, 5, 2, 3, 4, 5, 6, 8, 16, 25, 30, 36, 48};
	long ext[D]; long n = 1;
	for(int k = 0; k < D; ++k) { ext[k] = kExtT[in.head(1 + k) % 16U]; if(n*ext[k] > 1500) { ext[k] = 1 + static_cast<long>(in.head(1 + k) % 5U); } n *= ext[k]; }
	bool which[D]; std::array<bool, D> whicha{}; unsigned mask = in.head(5); long npoints = 1; int ntrans = 0;
	for(int k = 0; k < D; ++k) { which[k] = ((mask >> k) & 1U) != 0; whicha[static_cast<std::size_t>(k)] = which[k]; if(which[k]) { npoints *= ext[k]; ++ntrans; } }
	int const sign = (in.head(6) & 1U) ? +1 : -1;  // FFTW: forward = -1, backward = +1
	int const kin = vp::ops::kLayoutKinds[in.head(7) % 8U], kout = vp::ops::kLayoutKinds[in.head(8) % 8U];
	bool const inplace = (in.head(9) % 4U) == 0;
	unsigned seed = in.head(10);
	ctx.desc << "D=" << D << " extents("; for(int k = 0; k < D; ++k) { ctx.desc << (k ? "," : "") << ext[k]; } ctx.desc << ") which{"; for(int k = 0; k < D; ++k) { ctx.desc << (which[k] ? 'T' : 'F'); }
	ctx.desc << "} " << (sign < 0 ? "forward" : "backward") << " in=" << vp::ops::kind_name[kin] << (inplace ? " in-place" : std::string(" out=") + vp::ops::kind_name[kout]);
	vp::ops::Val xin; xin.ext.assign(ext, ext + D); xin.v.resize(static_cast<std::size_t>(n));
	std::vector<cplx> x(static_cast<std::size_t>(n));
	for(auto& e : x) { seed = seed*1103515245U + 12345U; double a = static_cast<double>(static_cast<int>((seed >> 16U) % 9U) - 4); seed = seed*1103515245U + 12345U; double b = static_cast<double>(static_cast<int>((seed >> 16U) % 7U) - 3); e = {a, b}; }
	auto const want = direct_dft<D>(x, ext, which, sign);
	double maxabs = 1; for(auto const& e : x) { maxabs = std::max(maxabs, std::abs(e)); }
	double const tol = 1e-10*static_cast<double>(n)*maxabs;
	auto sgn = sign < 0 ? multi::fftw::forward : multi::fftw::backward;
	// realise the input (complex values go through a real-valued Val: build the operand and overwrite its elements)
	auto set_elems = [](auto& v, std::vector<cplx> const& vals) { std::size_t j = 0; for(auto& e : v.elements()) { e = vals[j++]; } };
	auto guard_check = [&](auto& v, std::pair<cplx*, long> parent, std::vector<cplx> const& before, char const* what) {
		std::set<cplx const*> inside; for(auto const& e : v.elements()) { inside.insert(std::addressof(e)); }
		for(long i = 0; i < parent.second; ++i) { if(inside.count(parent.first + i) == 0) { VP_CHECK(parent.first[i] == before[static_cast<std::size_t>(i)], "fft/wrote_outside_output", what << ": parent cell " << i << " outside the view was overwritten"); } }
	};
	vp::ops::Val shape; shape.ext.assign(ext, ext + D); shape.v.assign(static_cast<std::size_t>(n), 0);
	vp::ops::with_operand<D, cplx, true>(shape, kin, [&](auto& vin) {
		auto pin = vp::ops::last_parent<cplx>();
		set_elems(vin, x);
		if(inplace) {
			std::vector<cplx> before(pin.first, pin.first + pin.second);
			multi::fftw::dft(whicha, vin, sgn);
			auto got = read(vin);
			for(long i = 0; i < n; ++i) { VP_CHECK(std::abs(got[static_cast<std::size_t>(i)] - want[static_cast<std::size_t>(i)]) <= tol, "fft/value_inplace", "in-place result element " << i << " is " << got[static_cast<std::size_t>(i)] << ", direct DFT gives " << want[static_cast<std::size_t>(i)]); }
			guard_check(vin, pin, before, "in-place transform");
			// the same geometry in the other placement, right afterwards (plans must not be confused between placements)
			vp::ops::with_operand<D, cplx, true>(shape, kin, [&](auto& vin2) {
				set_elems(vin2, x);
				vp::ops::with_operand<D, cplx, true>(shape, kin, [&](auto& vout2) {
					auto pout2 = vp::ops::last_parent<cplx>();
					std::vector<cplx> before2(pout2.first, pout2.first + pout2.second);
					multi::fftw::dft(whicha, std::as_const(vin2), vout2, sgn);
					auto got2 = read(vout2);
					for(long i = 0; i < n; ++i) { VP_CHECK(std::abs(got2[static_cast<std::size_t>(i)] - want[static_cast<std::size_t>(i)]) <= tol, "fft/value_after_inplace", "out-of-place transform of the same geometry right after the in-place one: element " << i << " is " << got2[static_cast<std::size_t>(i)] << ", direct DFT gives " << want[static_cast<std::size_t>(i)]); }
					guard_check(vout2, pout2, before2, "out-of-place transform after the in-place one");
					auto in2 = read(vin2);
					for(long i = 0; i < n; ++i) { VP_CHECK(in2[static_cast<std::size_t>(i)] == x[static_cast<std::size_t>(i)], "fft/input_modified", "the (distinct) input of the out-of-place transform after the in-place one was modified at element " << i); }
				});
			});
			return;
		}
		vp::ops::with_operand<D, cplx, true>(shape, kout, [&](auto& vout) {
			auto pout = vp::ops::last_parent<cplx>();
			std::vector<cplx> before(pout.first, pout.first + pout.second);
			std::vector<cplx> in_before(pin.first, pin.first + pin.second);
			// the front ends are overload sets: the input is passed as a const view or as the (named, non-const) view itself, the mask always as a named std::array
			bool const const_in = (in.head(9) & 8U) == 0;
			ctx.label(const_in ? "input_const" : "input_mutable_lvalue");
			if((in.head(9) & 4U) != 0) {
				if(sign < 0) { if(const_in) { multi::fftw::dft_forward(whicha, std::as_const(vin), vout); } else { multi::fftw::dft_forward(whicha, vin, vout); } }
				else         { if(const_in) { multi::fftw::dft_backward(whicha, std::as_const(vin), vout); } else { multi::fftw::dft_backward(whicha, vin, vout); } }
			} else { if(const_in) { multi::fftw::dft(whicha, std::as_const(vin), vout, sgn); } else { multi::fftw::dft(whicha, vin, vout, sgn); } }
			auto got = read(vout);
			for(long i = 0; i < n; ++i) { VP_CHECK(std::abs(got[static_cast<std::size_t>(i)] - want[static_cast<std::size_t>(i)]) <= tol, "fft/value", "result element " << i << " is " << got[static_cast<std::size_t>(i)] << ", direct DFT gives " << want[static_cast<std::size_t>(i)]); }
			guard_check(vout, pout, before, "out-of-place transform");
			for(long i = 0; i < pin.second; ++i) { VP_CHECK(pin.first[i] == in_before[static_cast<std::size_t>(i)], "fft/input_modified", "the (distinct) input was modified at parent cell " << i); }
			// the same geometry (the output's layout on both sides) in place, right afterwards
			vp::ops::with_operand<D, cplx, true>(shape, kout, [&](auto& v3) {
				auto p3 = vp::ops::last_parent<cplx>();
				set_elems(v3, x);
				std::vector<cplx> before3(p3.first, p3.first + p3.second);
				multi::fftw::dft(whicha, v3, sgn);
				auto got3 = read(v3);
				for(long i = 0; i < n; ++i) { VP_CHECK(std::abs(got3[static_cast<std::size_t>(i)] - want[static_cast<std::size_t>(i)]) <= tol, "fft/value_inplace_after", "in-place transform right after an out-of-place one: element " << i << " is " << got3[static_cast<std::size_t>(i)] << ", direct DFT gives " << want[static_cast<std::size_t>(i)]); }
				guard_check(v3, p3, before3, "in-place transform after the out-of-place one");
			});
			// a plan object built for this geometry and executed twice, on this pair and on a second pair of arrays of the same layouts (FFTW's new-array execute)
			if((in.head(11) & 1U) != 0) {
				vp::ops::with_operand<D, cplx, true>(shape, kin, [&](auto& vin4) {
					std::vector<cplx> x4(x.size()); for(std::size_t i = 0; i < x.size(); ++i) { x4[i] = cplx{x[i].imag() + 1.0, -x[i].real()}; }
					set_elems(vin4, x4);
					auto const want4 = direct_dft<D>(x4, ext, which, sign);
					vp::ops::with_operand<D, cplx, true>(shape, kout, [&](auto& vout4) {
						auto pout4 = vp::ops::last_parent<cplx>();
						std::vector<cplx> before4(pout4.first, pout4.first + pout4.second);
						if(vin4.layout() == vin.layout() && vout4.layout() == vout.layout()) {
							multi::fftw::plan const pl(whicha, vin.base(), vin.layout(), vout.base(), vout.layout(), sgn);
							for(auto& e : vout.elements()) { e = cplx{-1.0, -1.0}; }
							pl.execute(vin.base(), vout.base());
							pl.execute(vin4.base(), vout4.base());
							auto g1 = read(vout), g4 = read(vout4);
							for(long i = 0; i < n; ++i) { VP_CHECK(std::abs(g1[static_cast<std::size_t>(i)] - want[static_cast<std::size_t>(i)]) <= tol, "fft/plan_execute", "plan.execute on the planned arrays: element " << i << " is " << g1[static_cast<std::size_t>(i)] << ", direct DFT gives " << want[static_cast<std::size_t>(i)]); }
							for(long i = 0; i < n; ++i) { VP_CHECK(std::abs(g4[static_cast<std::size_t>(i)] - want4[static_cast<std::size_t>(i)]) <= tol*2, "fft/plan_execute_other_arrays", "plan.execute on other arrays of the same layouts: element " << i << " is " << g4[static_cast<std::size_t>(i)] << ", direct DFT gives " << want4[static_cast<std::size_t>(i)]); }
							guard_check(vout4, pout4, before4, "plan.execute on other arrays");
							auto in4 = read(vin4);
							for(long i = 0; i < n; ++i) { VP_CHECK(in4[static_cast<std::size_t>(i)] == x4[static_cast<std::size_t>(i)], "fft/input_modified", "plan.execute modified its (distinct) input at element " << i); }
							ctx.label("plan_reused");
						}
					});
				});
			}
			// forward followed by backward multiplies every element by the number of transformed points
			multi::array<cplx, D> back(vin.extensions());
			multi::fftw::dft(whicha, std::as_const(vout), back, sign < 0 ? multi::fftw::backward : multi::fftw::forward);
			auto rt = read(back);
			for(long i = 0; i < n; ++i) { VP_CHECK(std::abs(rt[static_cast<std::size_t>(i)] - static_cast<double>(npoints)*x[static_cast<std::size_t>(i)]) <= tol*static_cast<double>(npoints), "fft/round_trip", "forward then backward gives " << rt[static_cast<std::size_t>(i)] << " at element " << i << ", expected " << npoints << " * " << x[static_cast<std::size_t>(i)]); }
		});
	});
	bool const noncontig = kin != vp::ops::K_VIEW || (!inplace && kout != vp::ops::K_VIEW);
	ctx.nontrivial = n >= 2 && ((ntrans >= 1 && ntrans < D) || noncontig) && npoints >= 2;
	static char const* const dl[] = {"D0", "D1", "D2", "D3", "D4"};
	ctx.label(dl[D]); ctx.label(inplace ? "in_place" : "out_of_place"); ctx.label(ntrans == 0 ? "no_dimension" : ntrans == D ? "all_dimensions" : "subset_of_dimensions");
}
}  // namespace

struct Prop {
	static constexpr char const* id = "C15";
	static constexpr int H = 12, R = 1, MAXOPS = 0;  // header byte 11: bit 0 = also build a plan object and execute it twice
	static void run(Input const& in, Ctx& ctx) {
		switch(in.head(0) % 4U) {
			case 0: run_d<1>(in, ctx); break;
			case 1: run_d<2>(in, ctx); break;
			case 2: run_d<3>(in, ctx); break;
			default: run_d<4>(in, ctx); break;
		}
	}
};
VP_MAIN(Prop)
