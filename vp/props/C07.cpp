// C07 — equality and ordering are deep, layout-independent and mutually consistent
#include "../c07.hpp"

struct Prop {
	static constexpr char const* id = "C07";
	static constexpr int H = 12, R = 3, MAXOPS = 6;
	static void run(vp::Input const& in, vp::Ctx& ctx) {
		switch(in.head(0) % 9) {
			case 8: vp::c07::run_d0(in, ctx); break;
			case 0: case 4: vp::c07::run_d<1>(in, ctx); break;
			case 1: case 5: vp::c07::run_d<2>(in, ctx); break;
			case 2: case 6: vp::c07::run_d<3>(in, ctx); break;
			default: vp::c07::run_d<4>(in, ctx); break;
		}
	}
};
VP_MAIN(Prop)
