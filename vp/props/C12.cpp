// C12 — projection views transform, cast or reinterpret exactly element by element
// built three times: -DVP_C12_T=0 (int), 1 (struct S), 2 (std::complex<double>)
#include "../c01.hpp"

#include <boost/multi/adaptors/blas/numeric.hpp>

#include <complex>
#include <cstring>
#include <functional>

#ifndef VP_C12_T
#define VP_C12_T 0
#endif

namespace {
using vp::Model; using vp::Ctx; using vp::Input;
namespace multi = boost::multi;

struct S { int a; short b; short c; };
static_assert(sizeof(S) == 8);
struct Pair { int first; int second; };   // same size as S: target of the same-size reinterpret cast
inline bool operator==(S const& x, S const& y) { return x.a == y.a && x.b == y.b && x.c == y.c; }
inline bool operator==(Pair const& x, Pair const& y) { return x.first == y.first && x.second == y.second; }

#if VP_C12_T == 0
using T = int;
inline T make_elem(long i) { return static_cast<int>(i); }
inline T mutate(T x) { return x + 1000; }
#elif VP_C12_T == 1
using T = S;
inline T make_elem(long i) { return S{static_cast<int>(i), static_cast<short>(i % 1000 + 1), static_cast<short>(-(i % 500) - 2)}; }
inline T mutate(T x) { return S{x.a + 1000, static_cast<short>(x.b + 3), static_cast<short>(x.c - 5)}; }
#else
using T = std::complex<double>;
inline T make_elem(long i) { return {static_cast<double>(i), -static_cast<double>(i) - 0.5}; }
inline T mutate(T x) { return {x.real() + 1000.0, x.imag() - 7.0}; }
#endif

// fetch the element value at ordinals (proxy references of transformed views are prvalues: return by value)
template<class V> auto value_at(V&& v, long const* idx) {
	if constexpr(vp::rank_of<V> == 1) { return static_cast<typename std::decay_t<V>::element_type>(v[idx[0]]); }
	else { return value_at(v[idx[0]], idx + 1); }
}
template<class V> auto address_at(V&& v, long const* idx) {
	if constexpr(vp::rank_of<V> == 1) { return std::addressof(v[idx[0]]); }
	else { return address_at(v[idx[0]], idx + 1); }
}

// the same elements through the other access paths of the view interface: iterators of the leading dimension stepped forwards and backwards,
// front()/back(), it -= n, end() - n, and the elements() range in both directions (a projection view carries its own pointer type)
template<class PV, class F>
void check_traversals(PV&& pv, Model const& m, F&& expect, char const* what) {
	constexpr int D = vp::rank_of<PV>;
	using E = std::remove_cv_t<typename std::decay_t<PV>::element_type>;
	auto same = [](E const& got, E const& want) { return std::memcmp(&got, &want, sizeof got) == 0 || got == want; };
	long const n0 = m.d[0].size;
	long firsts[D]; for(int k = 0; k < D; ++k) { firsts[k] = m.d[static_cast<std::size_t>(k)].first; }
	auto head_of = [&](auto&& row_or_elem) -> E {  // first element of the sub-view an iterator of the leading dimension designates
		if constexpr(D == 1) { return static_cast<E>(row_or_elem); } else { return value_at(row_or_elem, firsts + 1); }
	};
	auto want_head = [&](long i) { long o[D] = {}; o[0] = i; return static_cast<E>(expect(o)); };
	// leading dimension, forwards and backwards
	{ long i = 0; for(auto it = pv.begin(); it != pv.end(); ++it, ++i) { VP_CHECK(same(head_of(*it), want_head(i)), "proj/iter_forward", what << ": *(begin() stepped " << i << " times forward) is not the element at leading ordinal " << i); }
	  VP_CHECK(i == n0, "proj/iter_count", what << ": begin()..end() visits " << i << " positions, leading extent " << n0); }
	{ long i = n0; for(auto it = pv.end(); it != pv.begin();) { --it; --i; VP_CHECK(same(head_of(*it), want_head(i)), "proj/iter_backward", what << ": *(end() stepped back to ordinal " << i << ") is not the element at that ordinal"); } }
	VP_CHECK(same(head_of(pv.front()), want_head(0)), "proj/front", what << ": front() is not the element at leading ordinal 0");
	VP_CHECK(same(head_of(pv.back()), want_head(n0 - 1)), "proj/back", what << ": back() is not the element at the last leading ordinal");
	for(long j = 1; j <= std::min<long>(n0, 3); ++j) {
		auto it = pv.end(); it -= j;
		VP_CHECK(same(head_of(*it), want_head(n0 - j)), "proj/iter_minus_assign", what << ": *(end() -= " << j << ") is not the element at leading ordinal " << (n0 - j));
		VP_CHECK(same(head_of(*(pv.end() - j)), want_head(n0 - j)), "proj/iter_minus", what << ": *(end() - " << j << ") is not the element at leading ordinal " << (n0 - j));
		auto jt = pv.begin(); jt += (n0 - 1); jt -= (j - 1);
		VP_CHECK(same(head_of(*jt), want_head(n0 - j)), "proj/iter_plus_minus", what << ": *(begin() + " << (n0 - 1) << " - " << (j - 1) << ") is not the element at leading ordinal " << (n0 - j));
	}
	// rows: the same for every sub-view of the leading dimension
	if constexpr(D >= 2) {
		Model ms = m; ms.d.erase(ms.d.begin());
		for(long i = 0; i < n0; ++i) {
			auto&& row = pv[firsts[0] + i];
			check_traversals(row, ms, [&](long const* o) { long oo[D]; oo[0] = i; for(int k = 1; k < D; ++k) { oo[k] = o[k - 1]; } return expect(oo); }, what);
		}
	}
	// elements(): canonical order forwards, reverse canonical order backwards
	{
		std::vector<E> seq; { long o[D] = {}; do { seq.push_back(static_cast<E>(expect(o))); } while(vp::next_ord(m, o)); }
		auto&& er = pv.elements();
		std::size_t k = 0;
		for(auto it = er.begin(); it != er.end(); ++it, ++k) { VP_CHECK(k < seq.size() && same(static_cast<E>(*it), seq[k]), "proj/elements_forward", what << ": elements() position " << k << " is not the canonical element"); }
		VP_CHECK(k == seq.size(), "proj/elements_count", what << ": elements() visits " << k << " elements, the view has " << seq.size());
		for(auto it = er.end(); it != er.begin();) { --it; --k; VP_CHECK(same(static_cast<E>(*it), seq[k]), "proj/elements_backward", what << ": elements() stepped back to position " << k << " is not the canonical element"); }
	}
}

// check a projected view `pv` of rank D against `expect(ordinals) -> value`; extents must be those of the model
template<class PV, class F>
void check_projection(PV&& pv, Model const& m, F&& expect, char const* what) {
	constexpr int D = vp::rank_of<PV>;
	VP_CHECK(m.D() == D, "harness/rank", what);
	long sz[D]; vp::lib_sizes(pv, sz);
	if(m.empty()) { VP_CHECK(pv.num_elements() == 0, "proj/extents", what << ": source has no elements but the projection has " << pv.num_elements()); return; }
	for(int k = 0; k < D; ++k) { VP_CHECK(sz[k] == m.d[static_cast<std::size_t>(k)].size, "proj/extents", what << ": extent " << k << " is " << sz[k] << ", source view has " << m.d[static_cast<std::size_t>(k)].size); }
	long ord[D] = {}; long idx[D];
	do {
		for(int k = 0; k < D; ++k) { idx[k] = m.d[static_cast<std::size_t>(k)].first + ord[k]; }
		auto got = value_at(pv, idx);
		auto want = expect(ord);
		VP_CHECK(std::memcmp(&got, &want, sizeof got) == 0 || got == want, "proj/value", what << ": element at ordinal (" << ord[0] << (D > 1 ? ",.." : "") << ") differs from f(source element)");
	} while(vp::next_ord(m, ord));
	check_traversals(pv, m, expect, what);
}

struct Fin {
	T* root; long N; Ctx& ctx; Input const& in;

	template<class V, class I>
	void operator()(V& v, Model& m, I& /*interp*/) {
		ctx.desc << " => "; m.print(ctx.desc);
		if constexpr(!std::is_same_v<typename V::element_ptr, T*>) { ctx.count("source_with_pointer_to_const_skipped"); }  // see run_d: several casts do not instantiate for these
		else if constexpr(vp::is_owning<std::remove_const_t<V>>::value) { auto&& vv = v(); go(vv, m); }
		else { go(v, m); }
	}

	template<class V>
	void go(V& v, Model const& m) {
		constexpr int D = vp::rank_of<V>;
		constexpr bool ro = std::is_const_v<V> || vp::is_csub<V>::value || !std::is_same_v<typename V::element_ptr, T*>;
		unsigned const proj = in.head(10);
		if(N == 0 && !vp::known_mode()) { ctx.count("null_root_skipped"); return; }  // projections dereference or offset the (null) data pointer of an array with zero elements: null-root family (known_findings C01)
		auto src = [&](long const* ord) -> T& { return root[m.pos(ord)]; };
		auto mutate_all = [&] { for(long i = 0; i < N; ++i) { root[i] = mutate(root[i]); } };
		bool const noncontig = !m.empty() && !m.compact_rowmajor();
		ctx.nontrivial = noncontig && m.nelems() >= 2;

		// -------- projections common to all element types
		switch(proj % 6U) {
			case 0: {  // as_const: same elements, same addresses, read-only
				ctx.desc << " ; as_const()"; ctx.label("as_const");
				if constexpr(D >= 2) {  // (the 1-D specialisation has no as_const())
					auto&& pv = v.as_const();
					check_projection(pv, m, [&](long const* o) { return src(o); }, "as_const");
					if(!m.empty()) { long o0[D] = {}; long i0[D]; for(int k = 0; k < D; ++k) { i0[k] = m.d[static_cast<std::size_t>(k)].first; } VP_CHECK(static_cast<void const*>(address_at(pv, i0)) == static_cast<void const*>(&src(o0)), "proj/identity", "as_const() element is not the source element"); }
					static_assert(!std::is_assignable_v<decltype(*address_at(pv, static_cast<long const*>(nullptr))), T>);
				}
				return;
			}
			case 1: {  // const_array_cast / static_array_cast<T const>
				ctx.desc << " ; static_array_cast<T const>()"; ctx.label("static_array_cast_const");
				auto&& pv = std::as_const(v).template static_array_cast<T const>();
				check_projection(pv, m, [&](long const* o) { return src(o); }, "static_array_cast<T const>");
				mutate_all();
				check_projection(pv, m, [&](long const* o) { return src(o); }, "static_array_cast<T const> after mutating the source");
				// const_array_cast<T>() of the read-only view: same extents, the very same elements, writable again (only constness changes)
				if constexpr(D >= 2) {  // (the 1-D specialisation has no const_array_cast())
					ctx.desc << " ; const_array_cast<T>()"; ctx.label("const_array_cast");
					auto&& mv = pv.template const_array_cast<T>();
					check_projection(mv, m, [&](long const* o) { return src(o); }, "const_array_cast<T>");
					if(!m.empty()) {
						long i0[D]; long ord[D] = {};
						do {
							for(int k = 0; k < D; ++k) { i0[k] = m.d[static_cast<std::size_t>(k)].first + ord[k]; }
							VP_CHECK(static_cast<void const*>(address_at(mv, i0)) == static_cast<void const*>(&src(ord)), "proj/identity", "const_array_cast<T>() element is not the source element");
						} while(vp::next_ord(m, ord));
						static_assert(std::is_assignable_v<decltype(*address_at(mv, static_cast<long const*>(nullptr))), T>, "const_array_cast<T>() yields assignable elements");
						std::vector<T> before(root, root + N);
						long l0[D]; for(int k = 0; k < D; ++k) { l0[k] = m.d[static_cast<std::size_t>(k)].first + m.d[static_cast<std::size_t>(k)].size - 1; } long ol[D]; for(int k = 0; k < D; ++k) { ol[k] = m.d[static_cast<std::size_t>(k)].size - 1; }
						*address_at(mv, l0) = mutate(src(ol));  // write through the last element
						for(long i = 0; i < N; ++i) { if(i != m.pos(ol)) { VP_CHECK(std::memcmp(&root[i], &before[static_cast<std::size_t>(i)], sizeof(T)) == 0, "proj/write_through", "writing through const_array_cast<T>() changed root element " << i << ", not only the designated one"); } }
						T const expected_new = mutate(before[static_cast<std::size_t>(m.pos(ol))]);
						VP_CHECK(std::memcmp(&root[m.pos(ol)], &expected_new, sizeof(T)) == 0, "proj/write_through", "writing through const_array_cast<T>() did not reach the source element");
					}
				}
				return;
			}
			case 2: {  // array constructed from the view: extents and elements
				ctx.desc << " ; array{view}"; ctx.label("array_from_view");
				multi::array<T, D> A{v};
				std::vector<T> snapshot; if(!m.empty()) { long o[D] = {}; do { snapshot.push_back(src(o)); } while(vp::next_ord(m, o)); }
				mutate_all();  // the array is a copy: later mutation of the source is invisible
				Model mc = m; long st = 1; for(int k = D - 1; k >= 0; --k) { mc.d[static_cast<std::size_t>(k)].stride = st; st *= mc.d[static_cast<std::size_t>(k)].size; mc.d[static_cast<std::size_t>(k)].first = 0; } mc.offset = 0;
				check_projection(A, mc, [&](long const* o) { return snapshot[static_cast<std::size_t>(mc.pos(o))]; }, "array{view}");
				return;
			}
			default: break;
		}
		if((in.head(11) % 4U) == 0) { narrower_reinterpret(v, m, src, std::bool_constant<ro>{}); return; }  // one case in four of the type-specific share
		type_specific(v, m, proj / 6U, src, mutate_all, std::bool_constant<ro>{});
	}

	// reinterpret_array_cast<U>() with sizeof(U) dividing sizeof(T): every element is reinterpreted in place, i.e. the projected element is the U at the start of the
	// source element (int -> short, S -> int (= S::a), complex<double> -> double (= the real part)); extents and index ranges are kept; all three value-category overloads.
	// For a read-only 1-D view the cast also keeps an index range that does not start at zero (the overload that carries the layout offset over).
	template<class V, class Src, bool RO>
	void narrower_reinterpret(V& v, Model const& m, Src&& src, std::bool_constant<RO>) {
		constexpr int D = vp::rank_of<V>;
#if VP_C12_T == 0
		using U = short; char const* const un = "short";
#elif VP_C12_T == 1
		using U = int; char const* const un = "int";
#else
		using U = double; char const* const un = "double";
#endif
		static_assert(sizeof(T) % sizeof(U) == 0 && sizeof(U) < sizeof(T));
		ctx.desc << " ; reinterpret_array_cast<" << un << ">()"; ctx.label("reinterpret_narrower_element");
		auto chk = [&](auto&& pv, Model const& mm, char const* what) {
			check_projection(pv, mm, [&](long const* o) { U u; std::memcpy(&u, &src(o), sizeof u); return u; }, what);
			if(!mm.empty()) {
				long o[D] = {}; long idx[D];
				do { for(int k = 0; k < D; ++k) { idx[k] = mm.d[static_cast<std::size_t>(k)].first + o[k]; }
					VP_CHECK(static_cast<void const*>(address_at(pv, idx)) == static_cast<void const*>(&src(o)), "proj/identity", what << ": the reinterpreted element does not start at the source element");
				} while(vp::next_ord(mm, o));
			}
		};
		chk(std::as_const(v).template reinterpret_array_cast<U>(), m, "reinterpret_array_cast<narrower> const&");
		if constexpr(!RO) { chk(v.template reinterpret_array_cast<U>(), m, "reinterpret_array_cast<narrower> &"); chk(v().template reinterpret_array_cast<U>(), m, "reinterpret_array_cast<narrower> &&"); }
		if constexpr(D == 1) {
			if(!m.empty()) {
				long const nb = 1 + static_cast<long>(in.head(11) / 4U) % 5;  // 1..5
				Model mb = m; mb.d[0].first = nb;
				auto&& rb = std::as_const(v).reindexed(static_cast<multi::index>(nb));
				ctx.desc << " ; as_const(v).reindexed(" << nb << ").reinterpret_array_cast<" << un << ">()"; ctx.label("reinterpret_narrower_rebased_1d");
				chk(rb.template reinterpret_array_cast<U>(), mb, "reinterpret_array_cast<narrower> of a re-based read-only 1-D view");
			}
		}
	}

#if VP_C12_T == 0
	template<class V, class Src, class Mut, bool RO>
	void type_specific(V& v, Model const& m, unsigned proj, Src&& src, Mut&& mutate_all, std::bool_constant<RO>) {
		constexpr int D = vp::rank_of<V>;
		switch(proj % 4U) {
			case 0: {  // lazy value-returning transformation, re-evaluated after the source changes; composes with further view operations
				ctx.desc << " ; element_transformed(2x+1)"; ctx.label("element_transformed_value");
				auto f = [](int x) { return 2L*x + 1; };
				auto&& pv = v.element_transformed(decltype(f)(f));  // (an lvalue functor deduces a reference type that transform_ptr cannot store: pass a temporary, as the tests do)
				check_projection(pv, m, [&](long const* o) { return f(src(o)); }, "element_transformed");
				mutate_all();
				check_projection(pv, m, [&](long const* o) { return f(src(o)); }, "element_transformed after mutating the source (laziness)");
				if constexpr(D >= 2) { Model mr = m; std::rotate(mr.d.begin(), mr.d.begin() + 1, mr.d.end()); auto&& pr = pv.rotated(); check_projection(pr, mr, [&](long const* o) { return f(root[mr.pos(o)]); }, "element_transformed(f).rotated()"); }
				{ multi::array<long, D> A{pv}; Model mc = m; long st = 1; for(int k = D - 1; k >= 0; --k) { mc.d[static_cast<std::size_t>(k)].stride = st; st *= mc.d[static_cast<std::size_t>(k)].size; mc.d[static_cast<std::size_t>(k)].first = 0; } mc.offset = 0;
				  std::vector<long> want; if(!m.empty()) { long o[D] = {}; do { want.push_back(f(src(o))); } while(vp::next_ord(m, o)); }
				  check_projection(A, mc, [&](long const* o) { return want[static_cast<std::size_t>(mc.pos(o))]; }, "array{element_transformed}"); }
				return;
			}
			case 1: {  // reference-returning transformation writes through
				ctx.desc << " ; element_transformed(ref) write-through"; ctx.label("element_transformed_ref");
				if constexpr(!RO) {
					auto g = [](int& x) -> int& { return x; };
					auto&& pv = v.element_transformed(decltype(g)(g));
					if(!m.empty()) {
						long o0[D] = {}; long i0[D]; for(int k = 0; k < D; ++k) { i0[k] = m.d[static_cast<std::size_t>(k)].first; }
						std::vector<int> before(root, root + N);
						*address_at(pv, i0) = 4242;
						VP_CHECK(src(o0) == 4242, "proj/write_through", "writing through element_transformed(ref) did not reach the source element");
						before[static_cast<std::size_t>(m.pos(o0))] = 4242;
						for(long i = 0; i < N; ++i) { VP_CHECK(root[i] == before[static_cast<std::size_t>(i)], "proj/write_through_stray", "writing through the projection changed root element " << i); }
					}
					check_projection(pv, m, [&](long const* o) { return src(o); }, "element_transformed(ref)");
				}
				return;
			}
			case 2: {  // convertible element type
				ctx.desc << " ; array<long>{view}"; ctx.label("converting_construction");
				multi::array<long, D> A{v};
				Model mc = m; long st = 1; for(int k = D - 1; k >= 0; --k) { mc.d[static_cast<std::size_t>(k)].stride = st; st *= mc.d[static_cast<std::size_t>(k)].size; mc.d[static_cast<std::size_t>(k)].first = 0; } mc.offset = 0;
				std::vector<long> want; if(!m.empty()) { long o[D] = {}; do { want.push_back(src(o)); } while(vp::next_ord(m, o)); }
				check_projection(A, mc, [&](long const* o) { return want[static_cast<std::size_t>(mc.pos(o))]; }, "array<long>{view}");
				return;
			}
			default: {  // same-size reinterpretation
				ctx.desc << " ; reinterpret_array_cast<unsigned>()"; ctx.label("reinterpret_same_size");
				auto&& pv = std::as_const(v).template reinterpret_array_cast<unsigned>();
				check_projection(pv, m, [&](long const* o) { unsigned u; std::memcpy(&u, &src(o), sizeof u); return u; }, "reinterpret_array_cast<unsigned>");
				return;
			}
		}
	}
#elif VP_C12_T == 1
	template<class V, class Src, class Mut, bool RO>
	void type_specific(V& v, Model const& m, unsigned proj, Src&& src, Mut&& mutate_all, std::bool_constant<RO>) {
		constexpr int D = vp::rank_of<V>;
		switch(proj % 5U) {
			case 0: case 1: {  // member_cast designates exactly the named member of each element
				bool const ma = (proj % 5U) == 0;
				ctx.desc << (ma ? " ; member_cast<int>(&S::a)" : " ; member_cast<short>(&S::c)"); ctx.label(ma ? "member_cast_int" : "member_cast_short");
				auto run = [&](auto&& pv, auto member) {
					check_projection(pv, m, [&](long const* o) { return src(o).*member; }, "member_cast");
					if(!m.empty()) {
						long o[D] = {}; long idx[D];
						do { for(int k = 0; k < D; ++k) { idx[k] = m.d[static_cast<std::size_t>(k)].first + o[k]; }
							VP_CHECK(static_cast<void const*>(address_at(pv, idx)) == static_cast<void const*>(&(src(o).*member)), "proj/member_address", "member_cast element is not the member of the source element");
						} while(vp::next_ord(m, o));
					}
					mutate_all();
					check_projection(pv, m, [&](long const* o) { return src(o).*member; }, "member_cast after mutating the source");
					if constexpr(D >= 2) { Model mr = m; std::rotate(mr.d.begin(), mr.d.begin() + 1, mr.d.end()); auto&& pr = pv.rotated(); check_projection(pr, mr, [&](long const* o) { return root[mr.pos(o)].*member; }, "member_cast.rotated()"); }
				};
				if(ma) { run(v.template member_cast<int>(&S::a), &S::a); } else { run(v.template member_cast<short>(&S::c), &S::c); }
				return;
			}
			case 2: {  // element_transformed with a pointer to member (std::invoke)
				ctx.desc << " ; element_transformed(&S::b)"; ctx.label("element_transformed_member");
				auto&& pv = v.element_transformed(std::mem_fn(&S::b));
				check_projection(pv, m, [&](long const* o) { return src(o).b; }, "element_transformed(mem_fn)");
				mutate_all();
				check_projection(pv, m, [&](long const* o) { return src(o).b; }, "element_transformed(mem_fn) after mutating the source");
				return;
			}
			case 3: {  // same-size reinterpretation of each element in place
				ctx.desc << " ; reinterpret_array_cast<Pair>()"; ctx.label("reinterpret_same_size");
				auto&& pv = std::as_const(v).template reinterpret_array_cast<Pair>();
				check_projection(pv, m, [&](long const* o) { Pair p; std::memcpy(&p, &src(o), sizeof p); return p; }, "reinterpret_array_cast<Pair>");
				return;
			}
			default: {  // extra trailing dimension over each element's bytes: S as 4 shorts
				ctx.desc << " ; reinterpret_array_cast<short>(4)"; ctx.label("reinterpret_extra_dimension");
				Model mx = m; mx.d.push_back(vp::Dim{0, 4, 0});
				if constexpr(D <= 4) {
					auto chk = [&](auto&& pv, char const* what) {
						constexpr int DX = vp::rank_of<decltype(pv)>;
						static_assert(DX == D + 1);
						long sz[DX]; vp::lib_sizes(pv, sz);
						if(m.empty()) { VP_CHECK(pv.num_elements() == 0, "proj/extents", what); return; }
						for(int k = 0; k < D; ++k) { VP_CHECK(sz[k] == m.d[static_cast<std::size_t>(k)].size, "proj/extents", what << ": extent " << k << " is " << sz[k]); }
						VP_CHECK(sz[D] == 4, "proj/extents", what << ": trailing extent is " << sz[D] << " expected 4");
						long o[DX] = {}; long idx[DX];
						do { for(int k = 0; k < D; ++k) { idx[k] = m.d[static_cast<std::size_t>(k)].first + o[k]; } idx[D] = o[D];
							short want; std::memcpy(&want, reinterpret_cast<char const*>(&src(o)) + 2*o[D], 2);
							VP_CHECK(value_at(pv, idx) == want, "proj/bytes", what << ": short " << o[D] << " of an element differs from the element's bytes");
							VP_CHECK(static_cast<void const*>(address_at(pv, idx)) == static_cast<void const*>(reinterpret_cast<char const*>(&src(o)) + 2*o[D]), "proj/byte_address", what << ": not over the element's own bytes");
						} while(vp::next_ord(mx, o));
					};
					chk(std::as_const(v).template reinterpret_array_cast<short>(4), "const reinterpret_array_cast<short>(4)");
					if constexpr(!RO) { chk(v.template reinterpret_array_cast<short>(4), "reinterpret_array_cast<short>(4) &"); chk(v().template reinterpret_array_cast<short>(4), "reinterpret_array_cast<short>(4) &&"); }
				}
				return;
			}
		}
	}
#else
	template<class V, class Src, class Mut, bool RO>
	void type_specific(V& v, Model const& m, unsigned proj, Src&& src, Mut&& mutate_all, std::bool_constant<RO>) {
		constexpr int D = vp::rank_of<V>;
		switch(proj % 4U) {
			case 0: case 1: {  // real / imaginary part views
				bool const re = (proj % 4U) == 0;
				ctx.desc << (re ? " ; blas::real(v)" : " ; blas::imag(v)"); ctx.label(re ? "blas_real" : "blas_imag");
				auto run = [&](auto&& pv) {
					check_projection(pv, m, [&](long const* o) { return re ? src(o).real() : src(o).imag(); }, "real/imag");
					mutate_all();
					check_projection(pv, m, [&](long const* o) { return re ? src(o).real() : src(o).imag(); }, "real/imag after mutating the source");
					if(!m.empty()) { long o0[D] = {}; long i0[D]; for(int k = 0; k < D; ++k) { i0[k] = m.d[static_cast<std::size_t>(k)].first; }
						VP_CHECK(static_cast<void const*>(address_at(pv, i0)) == static_cast<void const*>(reinterpret_cast<double const*>(&src(o0)) + (re ? 0 : 1)), "proj/member_address", "real/imag view does not alias the part of the source element"); }
				};
				if constexpr(!RO) { if(re) { run(multi::blas::real(v)); } else { run(multi::blas::imag(v)); } }
				else { ctx.count("real_imag_of_readonly_view_skipped"); (void)run; }  // blas::real/imag of a read-only view type does not instantiate on the pinned tree
				return;
			}
			case 2: {  // extra trailing dimension: complex as 2 doubles
				ctx.desc << " ; reinterpret_array_cast<double>(2)"; ctx.label("reinterpret_extra_dimension");
				if constexpr(D <= 4) {
					Model mx = m; mx.d.push_back(vp::Dim{0, 2, 0});
					auto&& pv = std::as_const(v).template reinterpret_array_cast<double>(2);
					constexpr int DX = D + 1;
					long sz[DX]; vp::lib_sizes(pv, sz);
					if(m.empty()) { VP_CHECK(pv.num_elements() == 0, "proj/extents", "reinterpret(2) of an empty view"); return; }
					for(int k = 0; k < D; ++k) { VP_CHECK(sz[k] == m.d[static_cast<std::size_t>(k)].size, "proj/extents", "reinterpret_array_cast<double>(2): extent " << k << " is " << sz[k]); }
					VP_CHECK(sz[D] == 2, "proj/extents", "trailing extent is " << sz[D]);
					long o[DX] = {}; long idx[DX];
					do { for(int k = 0; k < D; ++k) { idx[k] = m.d[static_cast<std::size_t>(k)].first + o[k]; } idx[D] = o[D];
						double want = o[D] == 0 ? src(o).real() : src(o).imag();
						VP_CHECK(value_at(pv, idx) == want, "proj/bytes", "reinterpret_array_cast<double>(2): component " << o[D] << " differs");
					} while(vp::next_ord(mx, o));
				}
				return;
			}
			default: {  // value transformation (conjugation) - lazy
				ctx.desc << " ; element_transformed(conj)"; ctx.label("element_transformed_value");
				auto f = [](std::complex<double> const& z) { return std::conj(z); };
				auto&& pv = v.element_transformed(decltype(f)(f));  // (an lvalue functor deduces a reference type that transform_ptr cannot store: pass a temporary, as the tests do)
				check_projection(pv, m, [&](long const* o) { return f(src(o)); }, "element_transformed(conj)");
				mutate_all();
				check_projection(pv, m, [&](long const* o) { return f(src(o)); }, "element_transformed(conj) after mutating the source");
				return;
			}
		}
	}
#endif
};

template<int D>
void run_d(Input const& in, Ctx& ctx) {
	auto r = vp::decode_root<D, false>(in, ctx);
	// sources are views of mutable roots (as in the repository's tests); read-only flavours are reached through std::as_const(view).  Views whose element
	// pointer is pointer-to-const (views of const arrays) do not instantiate several casts on the pinned tree (rebind drops the const) and are not generated.
	r.kind = (r.kind % 3 == 0) ? vp::RK_ARRAY : (r.kind % 3 == 1 ? vp::RK_STATIC : vp::RK_REF);
	vp::with_root<vp::CfgRaw, T, D, true>(r, [&](auto& root, Model m, T const* base, long N) {
		auto* wbase = const_cast<T*>(base);
		for(long i = 0; i < N; ++i) { wbase[i] = make_elem(i); }
		Fin fin{wbase, N, ctx, in};
		vp::Interp<Fin, false, 4, false, true> interp(in, ctx, fin);
		interp.null_root = (N == 0); interp.no_const = true;
		vp::check_shape(root, m, "construction");
		interp.step(root, m);
	});
}
}  // namespace

struct Prop {
	static constexpr char const* id = "C12";
	static constexpr int H = 12, R = 4, MAXOPS = 5;
	static void run(Input const& in, Ctx& ctx) {
		ctx.desc << (VP_C12_T == 0 ? "int " : VP_C12_T == 1 ? "S " : "complex ");
		switch(in.head(1) % 3) {
			case 0: run_d<1>(in, ctx); break;
			case 1: run_d<2>(in, ctx); break;
			default: run_d<3>(in, ctx); break;
		}
	}
};
VP_MAIN(Prop)
