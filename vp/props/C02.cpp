// C02 — iterators, cursors and flat element ranges obey the random-access laws
#include "../c02.hpp"

struct Prop {
	static constexpr char const* id = "C02";
	static constexpr int H = 12, R = 4, MAXOPS = 8;
	static void run(vp::Input const& in, vp::Ctx& ctx) { vp::run_c02<vp::CfgRaw>(in, ctx); }
};
VP_MAIN(Prop)
