// C05 — assignment through views is deep and writes exactly the viewed elements
#include "../c05.hpp"

struct Prop {
	static constexpr char const* id = "C05";
	static constexpr int H = 13, R = 4, MAXOPS = 6;
	static void run(vp::Input const& in, vp::Ctx& ctx) { vp::c05::run_c05<vp::CfgRaw>(in, ctx); }
};
VP_MAIN(Prop)
