// C20 (positive half) — valid programs of C01, C02 and the C04/C06 state machine, built in one of three configurations:
//   default (assertions on), -DNDEBUG, -DBOOST_MULTI_ASSERT_DISABLE.  Every build runs the same seeds against the same model oracles:
// a spurious library assertion aborts the default build; a result that depends on the configuration fails the oracle in one of them.
#include "../c02.hpp"
#include "../machine.hpp"
#include "../c06based.hpp"

namespace {
template<class T, int D> void run_machine(vp::Input const& in, vp::Ctx& ctx) {
	vp::obs().reset();
	ctx.desc << (std::is_same_v<T, int> ? "int" : "Tracked") << " D=" << D;
	vp::Input sub = in; sub.H = 13; sub.R = 8;
	vp::Machine<vp::MCfg<T, std::allocator<T>>, D> M(ctx);
	M.enabled = vp::kValueOps | vp::kResizeOps;
	M.run(sub);
	ctx.nontrivial = M.nt;
}
}  // namespace

struct Prop {
	static constexpr char const* id = "C20";
	static constexpr int H = 13, R = 8, MAXOPS = 8;
	static void run(vp::Input const& in, vp::Ctx& ctx) {
#if defined(NDEBUG)
		ctx.desc << "{NDEBUG} ";
#elif defined(BOOST_MULTI_ASSERT_DISABLE)
		ctx.desc << "{BOOST_MULTI_ASSERT_DISABLE} ";
#else
		ctx.desc << "{assertions on} ";
#endif
		vp::Input v4 = in; v4.H = 13; v4.R = 4;  // the view programs read 4-byte records from the same bytes
		switch(in.head(12) % 5U) {
			case 4: ctx.desc << "[C06-program on re-based arrays] "; if((in.head(1) & 1U) != 0) { vp::based::run_c06_based<2>(v4, ctx); } else { vp::based::run_c06_based<1>(v4, ctx); } ctx.label("program_C06_based"); break;
			case 0: ctx.desc << "[C01-program] "; vp::run_c01<vp::CfgRaw>(v4, ctx); ctx.label("program_C01"); break;
			case 1: ctx.desc << "[C02-program] "; vp::run_c02<vp::CfgRaw>(v4, ctx); ctx.label("program_C02"); break;
			case 2: ctx.desc << "[C04/C06-program] "; if((in.head(1) & 1U) != 0) { run_machine<int, 2>(in, ctx); } else { run_machine<vp::Tracked, 1>(in, ctx); } ctx.label("program_C04_C06"); break;
			default: ctx.desc << "[C04/C06-program] "; if((in.head(1) & 1U) != 0) { run_machine<int, 3>(in, ctx); } else { run_machine<int, 1>(in, ctx); } ctx.label("program_C04_C06"); break;
		}
	}
};
VP_MAIN(Prop)
