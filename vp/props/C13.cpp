// C13 — BLAS adaptor gives the mathematical result for every accepted view combination
// built per element type: -DVP_C13_T=0 double, 1 complex<double>, 2 float, 3 complex<float>
#include "../core.hpp"

#include <boost/multi/array.hpp>
#include <boost/multi/adaptors/blas.hpp>

#include <complex>
#include <functional>

#ifndef VP_C13_T
#define VP_C13_T 0
#endif

namespace {
namespace multi = boost::multi;
namespace blas = multi::blas;
using vp::Ctx; using vp::Input;

#if VP_C13_T == 0
using T = double; constexpr bool is_cplx = false; char const* const tname = "double";
#elif VP_C13_T == 1
using T = std::complex<double>; constexpr bool is_cplx = true; char const* const tname = "complex<double>";
#elif VP_C13_T == 2
using T = float; constexpr bool is_cplx = false; char const* const tname = "float";
#else
using T = std::complex<float>; constexpr bool is_cplx = true; char const* const tname = "complex<float>";
#endif
using R = decltype(std::abs(T{}));

inline double cj(double x) { return x; }
inline float cj(float x) { return x; }
template<class U> std::complex<U> cj(std::complex<U> const& x) { return std::conj(x); }
template<class U = T> U mkT_(int re, int im) { if constexpr(std::is_arithmetic_v<U>) { (void)im; return static_cast<U>(re); } else { return U(static_cast<typename U::value_type>(re), static_cast<typename U::value_type>(im)); } }
inline T mkT(int re, int im) { return mkT_<T>(re, im); }
template<class U> auto l1(U const& e) { if constexpr(std::is_arithmetic_v<U>) { return std::abs(e); } else { return std::abs(e.real()) + std::abs(e.imag()); } }
template<class U> U realpart_only(U const& e) { if constexpr(std::is_arithmetic_v<U>) { return e; } else { return U(e.real(), 0); } }

struct Mat {  // logical matrix
	long r = 0, c = 0; std::vector<T> v;
	Mat() = default;
	Mat(long r_, long c_) : r(r_), c(c_), v(static_cast<std::size_t>(r_*c_)) {}
	T& operator()(long i, long j) { return v[static_cast<std::size_t>(i*c + j)]; }
	T const& operator()(long i, long j) const { return v[static_cast<std::size_t>(i*c + j)]; }
};

enum Wrap { W_N, W_T, W_J, W_H };
char const* const wrap_name[] = {"", "T", "J", "H"};
struct MSpec { int wrap = W_N; bool colmajor = false; long p1 = 0, p2 = 0, o1 = 0, o2 = 0; };

constexpr int kSentinel = 77;

// realised matrix: parent storage + where the underlying block sits
struct RealM {
	multi::array<T, 2> P; MSpec s; long ur, uc;  // underlying (unwrapped) shape
	RealM(Mat const& L, MSpec sp) : s(sp) {
		if(L.r == 0 || L.c == 0) { if(s.p1 == 0) { s.p1 = 1; } if(s.p2 == 0) { s.p2 = 1; } }  // an empty operand is a block of a non-empty parent (an array without elements has a null data pointer)
		bool const tr = sp.wrap == W_T || sp.wrap == W_H;
		ur = tr ? L.c : L.r; uc = tr ? L.r : L.c;
		long const pr = (s.colmajor ? uc : ur) + s.p1, pc = (s.colmajor ? ur : uc) + s.p2;
		P = multi::array<T, 2>({pr, pc}, mkT(kSentinel, 0));
		for(long i = 0; i < L.r; ++i) { for(long j = 0; j < L.c; ++j) { under(tr ? j : i, tr ? i : j) = (sp.wrap == W_J || sp.wrap == W_H) ? cj(L(i, j)) : L(i, j); } }
	}
	T& under(long i, long j) { return s.colmajor ? P[s.o1 + j][s.o2 + i] : P[s.o1 + i][s.o2 + j]; }
	Mat logical() {  // read the block back through the wrapper
		bool const tr = s.wrap == W_T || s.wrap == W_H;
		Mat L(tr ? uc : ur, tr ? ur : uc);
		for(long i = 0; i < L.r; ++i) { for(long j = 0; j < L.c; ++j) { T u = under(tr ? j : i, tr ? i : j); L(i, j) = (s.wrap == W_J || s.wrap == W_H) ? cj(u) : u; } }
		return L;
	}
	bool padding_intact() {
		auto const [n1, n2] = P.sizes();
		for(long i = 0; i < n1; ++i) { for(long j = 0; j < n2; ++j) {
			long bi = s.colmajor ? j - s.o2 : i - s.o1, bj = s.colmajor ? i - s.o1 : j - s.o2;
			bool inside = bi >= 0 && bi < ur && bj >= 0 && bj < uc;
			if(!inside && P[i][j] != mkT(kSentinel, 0)) { return false; }
		} }
		return true;
	}
	// call f with the wrapped view (logical shape and contents of L)
	template<bool AllowConj = true, class F> void with_view(F&& f) {
		auto go = [&](auto&& base) {
			switch(s.wrap) {
				case W_N: f(base); break;
				case W_T: f(blas::T(base)); break;
				case W_J: if constexpr(is_cplx && AllowConj) { f(blas::J(base)); } else { f(base); } break;
				default: if constexpr(is_cplx && AllowConj) { f(blas::H(base)); } else { f(blas::T(base)); } break;
			}
		};
		if(s.colmajor) { go(P({s.o1, s.o1 + uc}, {s.o2, s.o2 + ur}).rotated()); } else { go(P({s.o1, s.o1 + ur}, {s.o2, s.o2 + uc})); }
	}
};

struct VSpec { long stride = 1; long off = 0; bool conj = false; bool column = false; };
struct RealV {
	multi::array<T, 2> P; VSpec s; long n;  // a (n*stride+off+1) x 2 matrix when `column`, else 1 x (n*stride + off + 1)
	RealV(std::vector<T> const& L, VSpec sp) : s(sp), n(static_cast<long>(L.size())) {
		long const len = n*s.stride + s.off + 1;
		P = s.column ? multi::array<T, 2>({len, 2}, mkT(kSentinel, 0)) : multi::array<T, 2>({1, len}, mkT(kSentinel, 0));
		for(long i = 0; i < n; ++i) { at(i) = s.conj ? cj(L[static_cast<std::size_t>(i)]) : L[static_cast<std::size_t>(i)]; }
	}
	T& at(long i) { return s.column ? P[s.off + i*s.stride][1] : P[0][s.off + i*s.stride]; }
	std::vector<T> logical() { std::vector<T> L; for(long i = 0; i < n; ++i) { L.push_back(s.conj ? cj(at(i)) : at(i)); } return L; }
	bool padding_intact() {
		auto const [n1, n2] = P.sizes();
		for(long i = 0; i < n1; ++i) { for(long j = 0; j < n2; ++j) {
			long k = s.column ? i : j; bool lane = s.column ? j == 1 : true;
			bool inside = lane && k >= s.off && (k - s.off) % s.stride == 0 && (k - s.off)/s.stride < n;
			if(!inside && P[i][j] != mkT(kSentinel, 0)) { return false; }
		} }
		return true;
	}
	template<bool AllowConj = false, class F> void with_view(F&& f) {
		auto go = [&](auto&& base) { if constexpr(is_cplx && AllowConj) { if(s.conj) { f(blas::C(base)); return; } } f(base); };
		if(s.column) { go(P.rotated()[1]({s.off, s.off + n*s.stride}).strided(s.stride)); } else { go(P[0]({s.off, s.off + n*s.stride}).strided(s.stride)); }
	}
};

// --------------------------------------------------------------------------------------------------------------------- child process
struct Child { int kind; std::string text; };  // kind: 0 ok, 1 wrong result, 2 rejected by exception, 3 rejected by library assertion, 4 crash / sanitizer
template<class F> Child in_child(F&& f) {
	int fd[2]; if(pipe(fd) != 0) { std::exit(3); }
	char errpath[] = "/dev/shm/vp_c13_XXXXXX"; int efd = mkstemp(errpath);
	std::fflush(nullptr);
	pid_t pid = vp::fork_retry();
	if(pid < 0) { close(fd[0]); close(fd[1]); if(efd >= 0) { close(efd); unlink(errpath); } throw vp::Inconclusive{"fork failed"}; }
	if(pid == 0) {
		vp::detach_crash_reporting();
		close(fd[0]); if(efd >= 0) { dup2(efd, 2); } alarm(30);
		std::string r; int code = 0;
		try { r = f(); code = r.empty() ? 0 : 1; } catch(vp::Fail const& e) { r = e.key + ": " + e.msg; code = 1; } catch(std::exception const& e) { r = std::string("exception: ") + e.what(); code = 2; } catch(...) { r = "unknown exception"; code = 2; }
		(void)!write(fd[1], r.data(), r.size()); _exit(code);
	}
	close(fd[1]);
	std::string pay; char buf[4096]; ssize_t k; while((k = read(fd[0], buf, sizeof buf)) > 0) { pay.append(buf, static_cast<std::size_t>(k)); } close(fd[0]);
	int st = 0; pid_t wr; do { wr = waitpid(pid, &st, 0); } while(wr < 0 && errno == EINTR);
	if(wr != pid || (WIFSIGNALED(st) && WTERMSIG(st) == SIGALRM)) { if(efd >= 0) { close(efd); unlink(errpath); } throw vp::Inconclusive{wr != pid ? "waitpid failed" : "the forked case did not finish within 30 s (load)"}; }
	std::string err; if(efd >= 0) { lseek(efd, 0, SEEK_SET); while((k = read(efd, buf, sizeof buf)) > 0 && err.size() < 5000) { err.append(buf, static_cast<std::size_t>(k)); } close(efd); unlink(errpath); }
	if(WIFEXITED(st) && WEXITSTATUS(st) <= 2) { return Child{WEXITSTATUS(st), pay}; }
	bool const sanit = err.find("Sanitizer") != std::string::npos || err.find("runtime error:") != std::string::npos;
	auto pos = err.find("Assertion `");
	if(!sanit && WIFSIGNALED(st) && WTERMSIG(st) == SIGABRT && pos != std::string::npos) { auto ls = err.rfind('\n', pos); ls = ls == std::string::npos ? 0 : ls + 1; if(err.substr(ls, pos - ls).find("include/boost/multi/") != std::string::npos) { return Child{3, err.substr(ls, 300)}; } }
	return Child{4, "child died (" + (WIFSIGNALED(st) ? "signal " + std::to_string(WTERMSIG(st)) : "exit " + std::to_string(WEXITSTATUS(st))) + "): " + err.substr(0, 1500)};
}

// --------------------------------------------------------------------------------------------------------------------- decoding helpers
struct Dec {
	Input const& in; int h = 2;
	unsigned u8() { return in.head(h++); }
	long size(bool allow0 = true) { static constexpr long t[8] = {1, 2, 3, 4, 5, 2, 3, 0}; long s = t[u8() % 8U]; return (!allow0 && s == 0) ? 1 : s; }
	T scalar() { static constexpr int re[6] = {1, 0, -1, 2, 0, 3}; static constexpr int im[6] = {0, 0, 0, 0, 1, -2}; unsigned k = u8() % (is_cplx ? 6U : 4U); return mkT(re[k], im[k]); }
	MSpec mspec(bool allow_conj, bool allow_trans = true) {
		unsigned x = u8(), y = u8(); MSpec s;
		s.wrap = static_cast<int>(x % 4U); if(!allow_conj && (s.wrap == W_J || s.wrap == W_H)) { s.wrap = s.wrap == W_H ? W_T : W_N; } if(!allow_trans && s.wrap == W_T) { s.wrap = W_N; }
		if(!is_cplx && s.wrap == W_J) { s.wrap = W_N; } if(!is_cplx && s.wrap == W_H) { s.wrap = W_T; }
		s.colmajor = ((x >> 2U) & 1U) != 0;
		if(((x >> 3U) & 1U) != 0) { s.p1 = 1 + (y & 1U); s.p2 = 1 + ((y >> 1U) & 1U); s.o1 = (y >> 2U) % static_cast<unsigned>(s.p1 + 1); s.o2 = (y >> 4U) % static_cast<unsigned>(s.p2 + 1); }
		return s;
	}
	VSpec vspec(bool allow_conj) { unsigned x = u8(); VSpec s; s.stride = 1 + static_cast<long>(x % 3U); s.off = (x >> 2U) % 3U; s.conj = allow_conj && is_cplx && ((x >> 4U) & 1U) != 0; s.column = ((x >> 5U) & 1U) != 0; return s; }
	Mat mat(long r, long c, unsigned salt) { Mat m(r, c); unsigned s = salt*2654435761U + 12345U; for(auto& e : m.v) { s = s*1103515245U + 12345U; int re = static_cast<int>((s >> 16U) % 7U) - 3; s = s*1103515245U + 12345U; int im = static_cast<int>((s >> 16U) % 5U) - 2; e = mkT(re, im); } return m; }
	std::vector<T> vec(long n, unsigned salt) { return mat(1, n, salt).v; }
};
void pr(vp::Txt& t, char const* name, MSpec const& s, long r, long c) { t << ' ' << name << '=' << wrap_name[s.wrap] << '(' << r << 'x' << c << (s.colmajor ? " colmajor" : " rowmajor"); if(s.p1 + s.p2 > 0) { t << " padded+" << s.p1 << ',' << s.p2 << "@" << s.o1 << ',' << s.o2; } t << ')'; }
void pr(vp::Txt& t, char const* name, VSpec const& s, long n) { t << ' ' << name << '=' << (s.conj ? "C" : "") << "(n=" << n << " stride " << s.stride << " off " << s.off << (s.column ? " column" : " row") << ')'; }
template<class TT> void prs(vp::Txt& t, char const* name, TT a) { if constexpr(!std::is_arithmetic_v<TT>) { t << ' ' << name << "=(" << static_cast<long>(a.real()) << ',' << static_cast<long>(a.imag()) << ')'; } else { t << ' ' << name << '=' << static_cast<long>(a); } }

bool eq(T a, T b, R tol = 0) { return std::abs(a - b) <= tol; }
std::string cmp(Mat const& got, Mat const& want, char const* what, R tol = 0) {
	if(got.r != want.r || got.c != want.c) { return std::string(what) + ": shape differs"; }
	for(long i = 0; i < got.r; ++i) { for(long j = 0; j < got.c; ++j) { if(!eq(got(i, j), want(i, j), tol)) { std::ostringstream os; os << what << ": element (" << i << ',' << j << ") is " << got(i, j) << ", mathematical result " << want(i, j); return os.str(); } } }
	return {};
}
std::string cmpv(std::vector<T> const& got, std::vector<T> const& want, char const* what) {
	for(std::size_t i = 0; i < want.size(); ++i) { if(!eq(got[i], want[i])) { std::ostringstream os; os << what << ": element " << i << " is " << got[i] << ", mathematical result " << want[i]; return os.str(); } }
	return {};
}

enum Op { OP_GEMM, OP_GEMM_LAZY, OP_GEMV, OP_GEMV_LAZY, OP_DOT, OP_AXPY, OP_SCAL, OP_COPY, OP_SWAP, OP_NRM2, OP_ASUM, OP_IAMAX, OP_HERK, OP_SYRK, OP_TRSM, NOPS_ };
char const* const op_name[] = {"gemm(in-place)", "gemm(lazy)", "gemv(in-place)", "gemv(lazy)", "dot", "axpy", "scal", "copy", "swap", "nrm2", "asum", "iamax", "herk", "syrk", "trsm"};

#ifndef VP_HAS_GEMM
#define VP_HAS_GEMM (VP_C13_T != 3)   // in-place gemm for complex<float> does not compile on the pinned tree (core.hpp: *beta != 0.0)
#endif

#ifndef VP_C13_ONLY
#define VP_C13_ONLY -1
#endif
#define VP_EN(k) (VP_C13_ONLY == -1 || VP_C13_ONLY == (k))
void run_case(Input const& in, Ctx& ctx) {
	Dec d{in};
	unsigned op = in.head(0) % NOPS_;
	unsigned const form = in.head(1);
	ctx.desc << tname << ' ' << op_name[op];
	bool must_accept = false;   // README-supported combination, every matrix operand with unit stride in one dimension, all sizes >= 1
	Child res{0, ""};
	switch(op) {
		case OP_GEMM: case OP_GEMM_LAZY: {
#if VP_HAS_GEMM
			long m = d.size(), k = d.size(), n = d.size();
			if(!vp::known_mode() && (m == 1 || k == 1 || n == 1)) {
				// recorded known finding: the stride-based dispatch of gemm_n has special branches for extents equal to 1 that hand xGEMM an invalid leading dimension
				// (BLAS rejects the call and the output is silently left unchanged, or writes out of bounds); excluded and counted
				ctx.count("excluded_gemm_extent_one"); if(m == 1) { m = 2; } if(k == 1) { k = 3; } if(n == 1) { n = 2; }
			}
			MSpec sa = d.mspec(true), sb = d.mspec(true), sc = d.mspec(op == OP_GEMM, true);
			if(sc.wrap == W_J) { sc.wrap = W_N; }
			T alpha = d.scalar(), beta = d.scalar();
			Mat A = d.mat(m, k, 1), B = d.mat(k, n, 2), C = d.mat(m, n, 3);
			int lazy_form = static_cast<int>(form % 3U);  // 0: C = gemm, 1: C += gemm, 2: array constructed from gemm
			if(lazy_form == 2 && m*n == 0) { lazy_form = 0; }  // (an array without elements has a null data pointer that the range copy offsets: null-root family)
			if(op == OP_GEMM_LAZY) { if(lazy_form != 1) { beta = mkT(0, 0); } else { beta = mkT(1, 0); } if(lazy_form == 2) { sc = MSpec{}; } }
			pr(ctx.desc, "A", sa, m, k); pr(ctx.desc, "B", sb, k, n); pr(ctx.desc, "C", sc, m, n); prs(ctx.desc, "alpha", alpha); prs(ctx.desc, "beta", beta);
			if(op == OP_GEMM_LAZY) { ctx.desc << (lazy_form == 0 ? " C = gemm(..)" : lazy_form == 1 ? " C += gemm(..)" : " array{gemm(..)}"); }
			Mat want(m, n);
			for(long i = 0; i < m; ++i) { for(long j = 0; j < n; ++j) { T s = mkT(0, 0); for(long l = 0; l < k; ++l) { s += A(i, l)*B(l, j); } want(i, j) = alpha*s + beta*C(i, j); } }
			// supported table (README): (A,B) in {N,T,H}^2 except (H,T); J operands are not expressible in BLAS
			bool const supported = sa.wrap != W_J && sb.wrap != W_J && !(sa.wrap == W_H && sb.wrap == W_T) && sc.wrap == W_N;
			must_accept = supported && m >= 1 && k >= 1 && n >= 1;
			res = in_child([&]() -> std::string {
				RealM ra(A, sa), rb(B, sb), rc(C, sc);
				std::string out;
				ra.with_view([&](auto&& a) { rb.with_view([&](auto&& b) {
					if(op == OP_GEMM) { rc.with_view([&](auto&& c) { blas::gemm(alpha, a, b, beta, c); }); }
					else if(lazy_form == 2) { multi::array<T, 2> cc = blas::gemm(alpha, a, b); Mat got(m, n); for(long i = 0; i < m; ++i) { for(long j = 0; j < n; ++j) { got(i, j) = cc[i][j]; } } if(cc.size() != m) { out = "array{gemm}: wrong number of rows"; } else { out = cmp(got, want, "array{gemm}"); } }
					else { rc.template with_view<false>([&](auto&& c) { if(lazy_form == 0) { c = blas::gemm(alpha, a, b); } else { c += blas::gemm(alpha, a, b); } }); }
				}); });
				if(!out.empty()) { return out; }
				if(!(op == OP_GEMM_LAZY && lazy_form == 2)) { out = cmp(rc.logical(), want, "gemm"); if(out.empty() && !rc.padding_intact()) { out = "gemm wrote outside the output view"; } }
				if(out.empty()) { out = cmp(ra.logical(), A, "gemm modified input A"); } if(out.empty()) { out = cmp(rb.logical(), B, "gemm modified input B"); }
				if(out.empty() && (!ra.padding_intact() || !rb.padding_intact())) { out = "gemm wrote around an input view"; }
				return out;
			});
			if(sa.p1 + sb.p1 + sa.wrap + sb.wrap > 0 && m*k*n > 0) { ctx.nontrivial = true; }
#else
			ctx.count("excluded_gemm_does_not_compile_for_this_element_type"); return;
#endif
			break;
		}
		case OP_GEMV: case OP_GEMV_LAZY: {
			long m = d.size(), n = d.size();
			MSpec sa = d.mspec(true); VSpec sx = d.vspec(false), sy = d.vspec(false);
			T alpha = d.scalar(), beta = d.scalar();
			int lazy_form = static_cast<int>(form % 3U);
			if(op == OP_GEMV_LAZY) { beta = lazy_form == 1 ? mkT(1, 0) : mkT(0, 0); }
			Mat A = d.mat(m, n, 1); auto x = d.vec(n, 2), y = d.vec(m, 3);
			pr(ctx.desc, "A", sa, m, n); pr(ctx.desc, "x", sx, n); pr(ctx.desc, "y", sy, m); prs(ctx.desc, "alpha", alpha); prs(ctx.desc, "beta", beta);
			if(op == OP_GEMV_LAZY) { ctx.desc << (lazy_form == 0 ? " y = gemv(..)" : lazy_form == 1 ? " y += gemv(..)" : " array{gemv(..)}"); }
			std::vector<T> want(static_cast<std::size_t>(m));
			for(long i = 0; i < m; ++i) { T s = mkT(0, 0); for(long j = 0; j < n; ++j) { s += A(i, j)*x[static_cast<std::size_t>(j)]; } want[static_cast<std::size_t>(i)] = alpha*s + beta*y[static_cast<std::size_t>(i)]; }
			must_accept = sa.wrap != W_H && m >= 1 && n >= 1;  // README: N, T, J supported; H not BLAS-implemented
			res = in_child([&]() -> std::string {
				RealM ra(A, sa); RealV rx(x, sx), ry(y, sy);
				std::string out;
				ra.with_view([&](auto&& a) { rx.with_view([&](auto&& xv) {
					if(op == OP_GEMV) { ry.with_view([&](auto&& yv) { blas::gemv(alpha, a, xv, beta, yv); }); }
					else if(lazy_form == 2) { multi::array<T, 1> yy = blas::gemv(alpha, a, xv); if(yy.size() != m) { out = "array{gemv}: wrong size"; } else { out = cmpv(std::vector<T>(yy.begin(), yy.end()), want, "array{gemv}"); } }
					else { ry.with_view([&](auto&& yv) { if(lazy_form == 0) { yv = blas::gemv(alpha, a, xv); } else { yv += blas::gemv(alpha, a, xv); } }); }
				}); });
				if(!out.empty()) { return out; }
				if(!(op == OP_GEMV_LAZY && lazy_form == 2)) { out = cmpv(ry.logical(), want, "gemv"); if(out.empty() && !ry.padding_intact()) { out = "gemv wrote outside the output view"; } }
				if(out.empty()) { out = cmp(ra.logical(), A, "gemv modified input A"); } if(out.empty()) { out = cmpv(rx.logical(), x, "gemv modified input x"); }
				return out;
			});
			if((sa.p1 + sa.wrap > 0 || sx.stride > 1 || sy.stride > 1) && m*n > 0) { ctx.nontrivial = true; }
			break;
		}
		case OP_DOT: {
			long n = d.size(); VSpec sx = d.vspec(true), sy = d.vspec(true);
			auto x = d.vec(n, 1), y = d.vec(n, 2);
			pr(ctx.desc, "x", sx, n); pr(ctx.desc, "y", sy, n);
			T want = mkT(0, 0); for(long i = 0; i < n; ++i) { want += x[static_cast<std::size_t>(i)]*y[static_cast<std::size_t>(i)]; }
			if(sx.conj && sy.conj) { sy.conj = false; ctx.count("dot_both_conjugated_is_a_compile_time_rejection"); }  // dot(C(x), C(y)) is rejected by a static_assert
			must_accept = n >= 1;
			int dform = static_cast<int>(form % 3U);
			ctx.desc << (dform == 0 ? " +dot(x,y)" : dform == 1 ? " T r = dot(x,y)" : " dot(x,y,res)");
			res = in_child([&]() -> std::string {
				RealV rx(x, sx), ry(y, sy); T got = mkT(55, 0); std::string out;
				auto both = [&](auto&& xv, auto&& yv) {
					if(dform == 0) { got = +blas::dot(xv, yv); } else if(dform == 1) { T r = blas::dot(xv, yv); got = r; } else { multi::array<T, 0> r0(mkT(9, 0)); blas::dot(xv, yv, r0); got = static_cast<T>(r0); }
				};
				if(sx.conj) { rx.template with_view<true>([&](auto&& xv) { ry.template with_view<false>([&](auto&& yv) { both(xv, yv); }); }); }
				else { rx.template with_view<false>([&](auto&& xv) { ry.template with_view<true>([&](auto&& yv) { both(xv, yv); }); }); }
				if(!eq(got, want)) { std::ostringstream os; os << "dot is " << got << ", mathematical result " << want; out = os.str(); }
				if(out.empty()) { out = cmpv(rx.logical(), x, "dot modified x"); } if(out.empty()) { out = cmpv(ry.logical(), y, "dot modified y"); }
				return out;
			});
			if((sx.stride != sy.stride || sx.conj || sy.conj) && n >= 2) { ctx.nontrivial = true; }
			break;
		}
		case OP_AXPY: case OP_COPY: case OP_SWAP: case OP_SCAL: {
			long n = d.size(); VSpec sx = d.vspec(false), sy = d.vspec(false); T alpha = d.scalar();
			auto x = d.vec(n, 1), y = d.vec(n, 2);
			pr(ctx.desc, "x", sx, n); if(op != OP_SCAL) { pr(ctx.desc, "y", sy, n); } if(op == OP_AXPY || op == OP_SCAL) { prs(ctx.desc, "alpha", alpha); }
			int f2 = static_cast<int>(form % 2U); int const f3 = static_cast<int>(form % 3U);
			if(op == OP_AXPY) { ctx.desc << (f3 == 0 ? " axpy(a,x,y)" : f3 == 1 ? " y += axpy(a,x)" : " y -= axpy(a,x)"); } if(op == OP_COPY) { ctx.desc << (f2 == 0 ? " copy(x,y)" : " y = copy(x)"); }
			must_accept = n >= 1;
			res = in_child([&]() -> std::string {
				RealV rx(x, sx), ry(y, sy); std::string out;
				std::vector<T> wx = x, wy = y;
				rx.with_view([&](auto&& xv) { ry.with_view([&](auto&& yv) {
					switch(op) {
						case OP_AXPY:  // (the lazy forms take a const vector)
							if(f3 == 0) { blas::axpy(alpha, xv, yv); } else if(f3 == 1) { yv += blas::axpy(alpha, std::as_const(xv)); } else { yv -= blas::axpy(alpha, std::as_const(xv)); }
							for(long i = 0; i < n; ++i) { wy[static_cast<std::size_t>(i)] = (f3 == 2 ? -alpha : alpha)*x[static_cast<std::size_t>(i)] + y[static_cast<std::size_t>(i)]; }
							break;
						case OP_COPY: if(f2 == 0) { blas::copy(xv, yv); } else { yv = blas::copy(xv); } wy = x; break;
						case OP_SWAP: blas::swap(xv, yv); wx = y; wy = x; break;
						default: blas::scal(alpha, xv); for(auto& e : wx) { e = alpha*e; } break;
					}
				}); });
				out = cmpv(rx.logical(), wx, "x after the operation"); if(out.empty()) { out = cmpv(ry.logical(), wy, "y after the operation"); }
				if(out.empty() && (!rx.padding_intact() || !ry.padding_intact())) { out = "wrote outside the vector views"; }
				return out;
			});
			if((sx.stride > 1 || sy.stride > 1) && n >= 2) { ctx.nontrivial = true; }
			break;
		}
		case OP_NRM2: case OP_ASUM: case OP_IAMAX: {
			long n = d.size(false); VSpec sx = d.vspec(false); auto x = d.vec(n, 1);
			pr(ctx.desc, "x", sx, n);
			must_accept = true;
			res = in_child([&]() -> std::string {
				RealV rx(x, sx); std::string out;
				rx.with_view([&](auto&& xv) {
					if(op == OP_NRM2) { R got = blas::nrm2(xv); R s = 0; for(auto const& e : x) { s += std::norm(e); } R want = std::sqrt(s); if(std::abs(got - want) > 8*std::numeric_limits<R>::epsilon()*static_cast<R>(n + 1)*(want + 1)) { std::ostringstream os; os << "nrm2 is " << got << ", mathematical result " << want; out = os.str(); } }
					else if(op == OP_ASUM) { R got{}; blas::asum(xv, got);  // (the lazy form does not instantiate for views / real elements)
					 R want = 0; for(auto const& e : x) { want += l1(e); } if(got != want) { std::ostringstream os; os << "asum is " << got << ", mathematical result " << want; out = os.str(); } }
					else { auto got = blas::iamax(xv.begin(), xv.end());  // (iamax(range) trips over the private layout base: iterator form)
					 long want = 0; R best = -1; for(long i = 0; i < n; ++i) { R a = l1(x[static_cast<std::size_t>(i)]); if(a > best) { best = a; want = i; } } if(static_cast<long>(got) != want) { std::ostringstream os; os << "iamax is " << got << ", expected " << want; out = os.str(); } }
				});
				if(out.empty()) { out = cmpv(rx.logical(), x, "the reduction modified x"); }
				return out;
			});
			if(sx.stride > 1 && n >= 2) { ctx.nontrivial = true; }
			break;
		}
		case OP_HERK: case OP_SYRK: {
			long n = d.size(false), k = d.size(false);
			if(!vp::known_mode() && (n == 1 || k == 1)) { ctx.count("excluded_level3_extent_one"); if(n == 1) { n = 2; } if(k == 1) { k = 3; } }  // same recorded finding as gemm: degenerate strides of extent-1 operands
			if(op == OP_HERK && VP_C13_T != 1) { op = OP_SYRK; }  // herk is exercised for complex<double>; for real elements it does not instantiate with views (syrk covers them)
			MSpec sa = d.mspec(op == OP_HERK); MSpec sc = d.mspec(false, false); if(sa.wrap == W_J) { sa.wrap = W_N; }
			if(op == OP_SYRK) { sc = MSpec{}; }
			if(op == OP_HERK && sa.wrap == W_H && sa.colmajor && !vp::known_mode()) { sa.colmajor = false; ctx.count("excluded_herk_hermitian_A_with_contiguous_rows"); }  // recorded known finding: off-diagonal entries come out conjugated
			if(op == OP_SYRK && sa.wrap == W_H) { sa.wrap = W_T; }
			bool const upper = (form & 1U) != 0;
			R alpha = static_cast<R>(1 + (form >> 1U) % 2U), beta = static_cast<R>((form >> 2U) % 2U);
			Mat A = d.mat(n, k, 1), C = d.mat(n, n, 2);
			if(op == OP_HERK) { for(long i = 0; i < n; ++i) { C(i, i) = realpart_only(C(i, i)); } }
			pr(ctx.desc, "A", sa, n, k); pr(ctx.desc, "C", sc, n, n); ctx.desc << (upper ? " upper" : " lower") << " alpha=" << static_cast<long>(alpha) << " beta=" << static_cast<long>(beta);
			Mat want = C;
			for(long i = 0; i < n; ++i) { for(long j = 0; j < n; ++j) { if(upper ? j >= i : j <= i) { T s = mkT(0, 0); for(long l = 0; l < k; ++l) { s += A(i, l)*(op == OP_HERK ? cj(A(j, l)) : A(j, l)); } want(i, j) = static_cast<T>(alpha)*s + static_cast<T>(beta)*C(i, j); } } }
			must_accept = false;  // (the tests themselves mark several herk layouts as not supported)
			res = in_child([&]() -> std::string {
				RealM ra(A, sa), rc(C, sc); std::string out;
				Mat gotC = C; bool used_array_c = false;
#if VP_C13_T == 1
				if(op == OP_HERK) { ra.template with_view<true>([&](auto&& a) { rc.template with_view<false>([&](auto&& c) { blas::herk(upper ? blas::filling::upper : blas::filling::lower, alpha, a, beta, c); }); }); }
#endif
				if(op == OP_SYRK) ra.template with_view<false>([&](auto&& a) {
					{  // syrk only instantiates with an owning array as output
						multi::array<T, 2> cc({n, n}, mkT(0, 0)); for(long i = 0; i < n; ++i) { for(long j = 0; j < n; ++j) { cc[i][j] = C(i, j); } }
						blas::syrk(upper ? blas::filling::upper : blas::filling::lower, static_cast<T>(alpha), a, static_cast<T>(beta), cc);
						for(long i = 0; i < n; ++i) { for(long j = 0; j < n; ++j) { gotC(i, j) = cc[i][j]; } } used_array_c = true;
					}
				});
				out = cmp(used_array_c ? gotC : rc.logical(), want, op == OP_HERK ? "herk (selected triangle updated, the other untouched)" : "syrk (selected triangle updated, the other untouched)");
				if(out.empty() && !rc.padding_intact()) { out = "wrote outside the output view"; } if(out.empty()) { out = cmp(ra.logical(), A, "modified input A"); }
				return out;
			});
			if(sa.wrap + sa.p1 + sc.p1 > 0) { ctx.nontrivial = true; }
			break;
		}
		default: {  // trsm: B <- alpha * op(A)^-1 B  (left)  or  B <- alpha * B op(A)^-1 (right), A triangular with unit-magnitude diagonal
			long n = d.size(false), m = d.size(false);
			if(!vp::known_mode() && (n == 1 || m == 1)) { ctx.count("excluded_level3_extent_one"); if(n == 1) { n = 2; } if(m == 1) { m = 3; } }
			bool const left = (form & 1U) != 0, upper = (form & 2U) != 0;
			MSpec sa = d.mspec(true, true), sb = d.mspec(true, true);  // A and B plain, transposed, conjugated or hermitian (whatever the adaptor accepts; rejections are counted)
			T alpha = d.scalar(); if(alpha == mkT(0, 0)) { alpha = mkT(1, 0); }
			Mat A = d.mat(n, n, 1);
			for(long i = 0; i < n; ++i) { for(long j = 0; j < n; ++j) { if(i == j) { A(i, j) = mkT((i % 2) ? -1 : 1, 0); } else if(upper ? j < i : j > i) { A(i, j) = mkT(0, 0); } } }
			Mat X = left ? d.mat(n, m, 2) : d.mat(m, n, 2);  // the solution, chosen first: B = A X / alpha  (exact in integers when alpha is a unit)
			if(!(std::abs(alpha) == static_cast<R>(1))) { alpha = mkT(1, 0); }
			Mat B = X;
			for(long i = 0; i < B.r; ++i) { for(long j = 0; j < B.c; ++j) { T s = mkT(0, 0); if(left) { for(long l = 0; l < n; ++l) { s += A(i, l)*X(l, j); } } else { for(long l = 0; l < n; ++l) { s += X(i, l)*A(l, j); } } B(i, j) = s/alpha; } }
			pr(ctx.desc, "A", sa, n, n); pr(ctx.desc, "B", sb, B.r, B.c); prs(ctx.desc, "alpha", alpha); ctx.desc << (left ? " left" : " right") << (upper ? " upper" : " lower");
			must_accept = false;
			res = in_child([&]() -> std::string {
				RealM ra(A, sa), rb(B, sb); std::string out;
				ra.with_view([&](auto&& a) { rb.with_view([&](auto&& b) { blas::trsm(left ? blas::side::left : blas::side::right, upper ? blas::filling::upper : blas::filling::lower, alpha, a, b); }); });
				out = cmp(rb.logical(), X, "trsm", static_cast<R>(64)*std::numeric_limits<R>::epsilon()*static_cast<R>(n*40));
				if(out.empty() && !rb.padding_intact()) { out = "trsm wrote outside the output view"; } if(out.empty()) { out = cmp(ra.logical(), A, "trsm modified A"); }
				return out;
			});
			if(sa.wrap + sa.p1 + sb.p1 > 0) { ctx.nontrivial = true; }
			break;
		}
	}
	static char const* const kl[] = {"accepted_correct", "WRONG", "rejected_exception", "rejected_assertion", "CRASH"};
	ctx.label(kl[res.kind]); ctx.label(op_name[op]);
	ctx.desc << " -> " << kl[res.kind];
	VP_CHECK(res.kind != 1, std::string("blas/wrong_result/") + op_name[op], res.text);
	VP_CHECK(res.kind != 4, std::string("blas/crash/") + op_name[op], res.text);
	// (a combination the README lists as supported but that the adaptor rejects is counted, not failed: the property only forbids silent miscomputation)
	if(must_accept) { ctx.label("readme_supported_combination"); if(res.kind != 0) { ctx.label("readme_supported_but_rejected"); } }
	if(res.kind != 0) { ctx.nontrivial = false; }
}
}  // namespace

struct Prop {
	static constexpr char const* id = "C13";
	static constexpr int H = 24, R = 1, MAXOPS = 0;
	static void run(Input const& in, Ctx& ctx) { run_case(in, ctx); }
};
VP_MAIN(Prop)
