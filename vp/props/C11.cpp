#ifndef VP_C11_PROGRAM
#define VP_C11_PROGRAM 1
#endif
// C11 — all guarantees are independent of the pointer type: the C01 / C02 programs replayed over a minimal offset pointer and a bounds/provenance-checking pointer
#include "../fancy.hpp"
#include "../c02.hpp"
#if VP_C11_PROGRAM == 3
#include "../c05.hpp"
#elif VP_C11_PROGRAM == 4
#include "../c07.hpp"
#elif VP_C11_PROGRAM == 5
#define VP_C03_NO_MAIN
#include "C03.cpp"
#endif

namespace vp {
struct CfgOff {
	static constexpr char const* name = "off_ptr";
	static constexpr bool based = false;
	template<class T> using alloc = OffAlloc<T>;
	template<class T> using ptr = off_ptr<T>;
	template<class T> static off_ptr<T> make_ptr(T* p, long /*n*/) { return off_ptr<T>(typename off_ptr<T>::from_raw_t{}, p); }
	static void release_ptr(void* /*p*/) {}
};
struct CfgChk {
	static constexpr char const* name = "chk_ptr";
	static constexpr bool based = false;
	template<class T> using alloc = ChkAlloc<T>;
	template<class T> using ptr = chk_ptr<T>;
	template<class T> static chk_ptr<T> make_ptr(T* p, long n) { return chk_ptr<T>(typename chk_ptr<T>::from_block_t{}, chk().add(p, static_cast<std::size_t>(n)*sizeof(T)), 0); }
	static void release_ptr(void* p) { for(std::size_t i = chk().blocks.size(); i-- > 0;) { if(chk().blocks[i].base == static_cast<char*>(p) && chk().blocks[i].live) { chk().blocks[i].live = false; return; } } }
};
}  // namespace vp

struct Prop {
	static constexpr char const* id = "C11";
	static constexpr int H = VP_C11_PROGRAM == 5 ? 15 : 13, R = 4, MAXOPS = VP_C11_PROGRAM == 5 ? 5 : 10;
	static void run(vp::Input const& in, vp::Ctx& ctx) {
		vp::fancy_errors().clear(); vp::chk().blocks.clear();
		bool const use_chk = VP_C11_PROGRAM == 5 ? (in.head(11) & 2U) != 0 : (in.head(12) & 1U) != 0;
		ctx.desc << (use_chk ? "[chk_ptr] " : "[off_ptr] ");
#if VP_C11_PROGRAM == 1
		// the same generated program over raw pointers first: the observable results (sizes, relative positions, values) must be identical
		vp::Ctx raw; raw.want_transcript = true; vp::run_c01<vp::CfgRaw>(in, raw);
		ctx.want_transcript = true;
		if(use_chk) { vp::run_c01<vp::CfgChk>(in, ctx); } else { vp::run_c01<vp::CfgOff>(in, ctx); }
		VP_CHECK(raw.transcript == ctx.transcript, "fancy/transcript", "observable results over " << (use_chk ? "chk_ptr" : "off_ptr") << " differ from the same program over raw pointers");
		ctx.label("program_C01");
#elif VP_C11_PROGRAM == 2
		if(use_chk) { vp::run_c02<vp::CfgChk>(in, ctx); } else { vp::run_c02<vp::CfgOff>(in, ctx); }
		ctx.label("program_C02");
#elif VP_C11_PROGRAM == 3
		// assignment through views (the C05 program): destination views over fancy-pointer roots; sources over the same pointer family or over raw pointers
		if(use_chk) { vp::c05::run_c05<vp::CfgChk>(in, ctx); } else { vp::c05::run_c05<vp::CfgOff>(in, ctx); }
		ctx.label("program_C05");
#elif VP_C11_PROGRAM == 5
		// standard algorithms (the C03 program) on begin()/end() and elements() of views over fancy-pointer roots; second ranges over the same family or raw pointers
		switch(in.head(1) % 3) {
			case 0: if(use_chk) { c03::run_d<1, vp::CfgChk>(in, ctx); } else { c03::run_d<1, vp::CfgOff>(in, ctx); } break;
			case 1: if(use_chk) { c03::run_d<2, vp::CfgChk>(in, ctx); } else { c03::run_d<2, vp::CfgOff>(in, ctx); } break;
			default: if(use_chk) { c03::run_d<3, vp::CfgChk>(in, ctx); } else { c03::run_d<3, vp::CfgOff>(in, ctx); } break;
		}
		ctx.label("program_C03");
#else
		// equality and ordering (the C07 program): operand A over the fancy family, operand B over the same family or over raw pointers
		{
			bool const b_fancy = (in.head(11) & 2U) != 0;
			ctx.desc << (b_fancy ? "[B same family] " : "[B raw] ");
			auto go = [&](auto d) {
				constexpr int D = decltype(d)::value;
				if(use_chk) { if(b_fancy) { vp::c07::run_d<D, vp::ChkAlloc, vp::ChkAlloc>(in, ctx); } else { vp::c07::run_d<D, vp::ChkAlloc, std::allocator>(in, ctx); } }
				else        { if(b_fancy) { vp::c07::run_d<D, vp::OffAlloc, vp::OffAlloc>(in, ctx); } else { vp::c07::run_d<D, vp::OffAlloc, std::allocator>(in, ctx); } }
			};
			switch(in.head(0) % 3) {
				case 0: go(std::integral_constant<int, 1>{}); break;
				case 1: go(std::integral_constant<int, 2>{}); break;
				default: go(std::integral_constant<int, 3>{}); break;
			}
			ctx.label("program_C07"); ctx.label(b_fancy ? "B_same_family" : "B_raw");
		}
#endif
		VP_CHECK(vp::fancy_errors().empty(), "fancy/pointer_violation", vp::fancy_errors().front());
		ctx.count("checked_dereferences", vp::chk().derefs); vp::chk().derefs = 0;
		ctx.label(use_chk ? "chk_ptr" : "off_ptr");
	}
};
VP_MAIN(Prop)
