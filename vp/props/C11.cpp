// C11 — all guarantees are independent of the pointer type: the C01 / C02 programs replayed over a minimal offset pointer and a bounds/provenance-checking pointer
#include "../fancy.hpp"
#include "../c02.hpp"

namespace vp {
struct CfgOff {
	static constexpr char const* name = "off_ptr";
	static constexpr bool based = false;
	template<class T> using alloc = OffAlloc<T>;
	template<class T> using ptr = off_ptr<T>;
	template<class T> static off_ptr<T> make_ptr(T* p, long /*n*/) { return off_ptr<T>(typename off_ptr<T>::from_raw_t{}, p); }
	static void release_ptr(void* /*p*/) {}
};
struct CfgChk {
	static constexpr char const* name = "chk_ptr";
	static constexpr bool based = false;
	template<class T> using alloc = ChkAlloc<T>;
	template<class T> using ptr = chk_ptr<T>;
	template<class T> static chk_ptr<T> make_ptr(T* p, long n) { return chk_ptr<T>(typename chk_ptr<T>::from_block_t{}, chk().add(p, static_cast<std::size_t>(n)*sizeof(T)), 0); }
	static void release_ptr(void* p) { for(std::size_t i = chk().blocks.size(); i-- > 0;) { if(chk().blocks[i].base == static_cast<char*>(p) && chk().blocks[i].live) { chk().blocks[i].live = false; return; } } }
};
}  // namespace vp

#ifndef VP_C11_PROGRAM
#define VP_C11_PROGRAM 1
#endif

struct Prop {
	static constexpr char const* id = "C11";
	static constexpr int H = 13, R = 4, MAXOPS = 10;
	static void run(vp::Input const& in, vp::Ctx& ctx) {
		vp::fancy_errors().clear(); vp::chk().blocks.clear();
		bool const use_chk = (in.head(12) & 1U) != 0;
		ctx.desc << (use_chk ? "[chk_ptr] " : "[off_ptr] ");
#if VP_C11_PROGRAM == 1
		// the same generated program over raw pointers first: the observable results (sizes, relative positions, values) must be identical
		vp::Ctx raw; raw.want_transcript = true; vp::run_c01<vp::CfgRaw>(in, raw);
		ctx.want_transcript = true;
		if(use_chk) { vp::run_c01<vp::CfgChk>(in, ctx); } else { vp::run_c01<vp::CfgOff>(in, ctx); }
		VP_CHECK(raw.transcript == ctx.transcript, "fancy/transcript", "observable results over " << (use_chk ? "chk_ptr" : "off_ptr") << " differ from the same program over raw pointers");
		ctx.label("program_C01");
#else
		if(use_chk) { vp::run_c02<vp::CfgChk>(in, ctx); } else { vp::run_c02<vp::CfgOff>(in, ctx); }
		ctx.label("program_C02");
#endif
		VP_CHECK(vp::fancy_errors().empty(), "fancy/pointer_violation", vp::fancy_errors().front());
		ctx.count("checked_dereferences", vp::chk().derefs); vp::chk().derefs = 0;
		ctx.label(use_chk ? "chk_ptr" : "off_ptr");
	}
};
VP_MAIN(Prop)
