// C06 — reextent keeps the common part; clear, reshape and assign do what they say: stateful, model-based
#include "../machine.hpp"

namespace {
template<class T, int D> void run_td(vp::Input const& in, vp::Ctx& ctx) {
	vp::obs().reset();
	ctx.desc << (std::is_same_v<T, int> ? "int" : std::is_same_v<T, vp::Init> ? "Init" : "Tracked") << " D=" << D;
	vp::Machine<vp::MCfg<T, std::allocator<T>>, D> M(ctx);
	M.enabled = vp::kResizeOps;
	M.run(in);
	ctx.nontrivial = M.nt;
	static char const* const dl[] = {"D0", "D1", "D2", "D3", "D4"};
	ctx.label(dl[D]); ctx.label(std::is_same_v<T, int> ? "T_int" : std::is_same_v<T, vp::Init> ? "T_Init" : "T_Tracked");
}
}  // namespace

struct Prop {
	static constexpr char const* id = "C06";
	static constexpr int H = 2, R = 8, MAXOPS = 10;
	static void run(vp::Input const& in, vp::Ctx& ctx) {
		using vp::Tracked;
		bool tr = (in.head(0) & 1U) != 0;
		// one case in eight: an element type that is trivially destructible but not trivially default constructible (new elements must still be value-initialised)
		if(!tr && (in.head(0) & 6U) == 6U) {
			switch(in.head(1) % 4) {
				case 0: run_td<vp::Init, 1>(in, ctx); break;
				case 1: case 3: run_td<vp::Init, 2>(in, ctx); break;
				default: run_td<vp::Init, 3>(in, ctx); break;
			}
			return;
		}
		switch(in.head(1) % 4) {
			case 0: tr ? run_td<Tracked, 1>(in, ctx) : run_td<int, 1>(in, ctx); break;
			case 1: tr ? run_td<Tracked, 2>(in, ctx) : run_td<int, 2>(in, ctx); break;
			case 2: tr ? run_td<Tracked, 3>(in, ctx) : run_td<int, 3>(in, ctx); break;
			default: tr ? run_td<Tracked, 4>(in, ctx) : run_td<int, 4>(in, ctx); break;
		}
	}
};
VP_MAIN(Prop)
