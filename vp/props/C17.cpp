// C17 — serialization round-trips every array exactly (Boost.Serialization: text, binary, XML archives)
#include "../views.hpp"
#include "../operands.hpp"
#include "../instr.hpp"

#include <boost/archive/binary_iarchive.hpp>
#include <boost/archive/binary_oarchive.hpp>
#include <boost/archive/text_iarchive.hpp>
#include <boost/archive/text_oarchive.hpp>
#include <boost/archive/xml_iarchive.hpp>
#include <boost/archive/xml_oarchive.hpp>
#include <boost/serialization/nvp.hpp>
#include <boost/serialization/string.hpp>

#include <sstream>

namespace boost::serialization {
template<class Ar> void serialize(Ar& ar, vp::Tracked& t, unsigned /*version*/) { ar & make_nvp("v", t.v); }
}  // namespace boost::serialization

namespace {
namespace multi = boost::multi;
using vp::Ctx; using vp::Input;

template<class T> T make_elem(int x);
template<> int make_elem<int>(int x) { return x; }
template<> double make_elem<double>(int x) { return static_cast<double>(x)/8.0 - 3.0; }  // dyadic: exact in text archives too
template<> std::string make_elem<std::string>(int x) { return std::string(static_cast<std::size_t>(x % 4), static_cast<char>('a' + x % 26)) + (x % 3 == 0 ? " sp<&>" : ""); }
template<> multi::array<int, 1> make_elem<multi::array<int, 1>>(int x) { multi::array<int, 1> a(multi::extensions_t<1>{x % 3}, x); return a; }

constexpr long kZero[5] = {0, 0, 0, 0, 0};
constexpr long kExt[8] = {1, 2, 3, 2, 0, 3, 4, 1};

template<int D, std::size_t... I>
multi::extensions_t<D> make_ext_o(long const* e, long const* o, std::index_sequence<I...> /*unused*/) { return multi::extensions_t<D>{multi::iextension{o[I], o[I] + e[I]}...}; }
template<class T, int D> multi::array<T, D> mkarr(long const* e, long const* o = nullptr) {
	if constexpr(D == 0) { (void)e; (void)o; return multi::array<T, 0>(T{}); }
	else { if(o != nullptr) { return multi::array<T, D>(make_ext_o<D>(e, o, std::make_index_sequence<static_cast<std::size_t>(D)>{})); } return multi::array<T, D>(vp::ops::make_ext<D>(e)); }
}

enum Arch { A_TEXT, A_BINARY, A_XML };

template<class Obj> std::string save(Obj const& obj, int arch) {
	std::stringstream ss;
	switch(arch) {
		case A_TEXT: { boost::archive::text_oarchive oa(ss); oa << obj; break; }
		case A_BINARY: { boost::archive::binary_oarchive oa(ss); oa << obj; break; }
		default: { boost::archive::xml_oarchive oa(ss); oa << boost::serialization::make_nvp("object", obj); break; }
	}
	return ss.str();
}
template<class Obj> void load(std::string const& data, Obj& obj, int arch) {
	std::stringstream ss(data);
	switch(arch) {
		case A_TEXT: { boost::archive::text_iarchive ia(ss); ia >> obj; break; }
		case A_BINARY: { boost::archive::binary_iarchive ia(ss); ia >> obj; break; }
		default: { boost::archive::xml_iarchive ia(ss); ia >> boost::serialization::make_nvp("object", obj); break; }
	}
}

// owning arrays: round trip over every prior state of the loading array
template<class T, int D>
void run_array(Input const& in, Ctx& ctx, char const* tname) {
	long e[D > 0 ? D : 1] = {}; long n = 1;
	for(int k = 0; k < D; ++k) { e[k] = kExt[in.head(2 + k) % 8U]; n *= e[k]; }
	int const arch = static_cast<int>(in.head(6) % 3U);
	unsigned const prior = in.head(7) % 5U;  // 0 empty, 1 same extents, 2 larger extents, 3 reversed extents (same element count), 4 all elements along the first dimension (same element count)
	unsigned const salt = in.head(8);
	long o[D > 0 ? D : 1] = {}; bool based = false;
	if(in.head(9) % 4U == 0) { for(int k = 0; k < D; ++k) { o[k] = static_cast<long>((in.head(10) >> k) % 2U) * (k % 2 == 0 ? 2 : -3); based = based || o[k] != 0; } }
	static char const* const an[] = {"text", "binary", "xml"}; static char const* const pn[] = {"empty", "same extents", "larger extents", "reversed extents", "flattened extents"};
	ctx.desc << "array<" << tname << "," << D << ">("; for(int k = 0; k < D; ++k) { ctx.desc << (k ? "x" : "") << e[k]; } ctx.desc << ") " << an[arch] << " archive, loading array previously " << pn[prior];
	if(based) { ctx.desc << ", index origins ("; for(int k = 0; k < D; ++k) { ctx.desc << (k ? "," : "") << o[k]; } ctx.desc << ")"; }
	multi::array<T, D> A = mkarr<T, D>(e, based ? o : nullptr);
	std::vector<T> vals;
	{ long j = 0; for(auto& el : A.elements()) { el = make_elem<T>(static_cast<int>((j*7 + salt) % 50)); vals.push_back(el); ++j; } }
	std::string const data = save(A, arch);
	multi::array<T, D> B = mkarr<T, D>(kZero);  // (array<T,0>'s default constructor does not compile with assertions enabled)
	if constexpr(D > 0) {
		if(prior == 1) { B = mkarr<T, D>(e); for(auto& el : B.elements()) { el = make_elem<T>(49); } }
		else if(prior >= 2) { long e2[D]; for(int k = 0; k < D; ++k) { e2[k] = prior == 2 ? e[k] + 1 + (k % 2) : prior == 3 ? e[D - 1 - k] : k == 0 ? n : 1; } B = mkarr<T, D>(e2); for(auto& el : B.elements()) { el = make_elem<T>(48); } }
	} else { if(prior != 0) { B = multi::array<T, D>(make_elem<T>(47)); } }
	load(data, B, arch);
	VP_CHECK(static_cast<long>(B.num_elements()) == static_cast<long>(A.num_elements()), "serial/num_elements", "loaded array has " << B.num_elements() << " elements, saved " << A.num_elements());
	// (for arrays without elements the saved array's own reported sizes and index ranges are the reference: the library collapses some empty shapes at construction)
	if constexpr(D > 0) { { long sa[D], sb[D]; vp::lib_sizes(A, sa); vp::lib_sizes(B, sb); for(int k = 0; k < D; ++k) { VP_CHECK(sa[k] == sb[k], "serial/extents", "extent " << k << " loaded as " << sb[k] << ", saved " << sa[k]); }
		long fa[D], la[D], fb[D], lb[D]; vp::lib_extensions(A, fa, la); vp::lib_extensions(B, fb, lb);
		for(int k = 0; k < D; ++k) { VP_CHECK(fa[k] == fb[k] && la[k] == lb[k], "serial/extensions", "index range " << k << " loaded as [" << fb[k] << "," << lb[k] << "), saved [" << fa[k] << "," << la[k] << ")"); } } }
	{ std::size_t j = 0; for(auto const& el : B.elements()) { VP_CHECK(el == vals[j], "serial/elements", "element " << j << " differs after the round trip"); ++j; } }
	// the original is unchanged by saving
	{ std::size_t j = 0; for(auto const& el : A.elements()) { VP_CHECK(el == vals[j], "serial/source_modified", "saving modified element " << j); ++j; } }
	ctx.nontrivial = n >= 2;
	if(based) { ctx.label("nonzero_origin"); }
	ctx.label(an[arch]); ctx.label(tname); { bool same = true; if constexpr(D > 0) { if(prior >= 3) { for(int k = 0; k < D; ++k) { same = same && (prior == 3 ? e[D - 1 - k] : k == 0 ? n : 1) == e[k]; } } }
	  ctx.label(prior == 0 ? "prior_empty" : (prior == 1 || (prior >= 3 && same)) ? "prior_same" : prior == 2 ? "prior_larger" : "prior_same_count_other_extents"); }
}

// lifetime bookkeeping of the load path (clear + reextent): instrumented element and observing allocator
void run_tracked(Input const& in, Ctx& ctx) {
	using vp::Tracked; using vp::obs;
	using Arr = multi::array<Tracked, 2, vp::ObsAlloc<Tracked, 8>>;
	obs().reset();
	long e[2], e0[2]; for(int k = 0; k < 2; ++k) { e[k] = kExt[in.head(2 + k) % 8U]; e0[k] = kExt[in.head(4 + k) % 8U]; }
	int const arch = static_cast<int>(in.head(6) % 3U);
	bool const prior_default = in.head(7) % 4U == 0;
	unsigned const salt = in.head(8);
	static char const* const an[] = {"text", "binary", "xml"};
	ctx.desc << "array<Tracked,2>(" << e[0] << "x" << e[1] << ") " << an[arch] << " archive, loading array previously ";
	if(prior_default) { ctx.desc << "default-constructed"; } else { ctx.desc << e0[0] << "x" << e0[1]; }
	{
		Arr A(vp::ops::make_ext<2>(e));
		std::vector<int> vals; { long j = 0; for(auto& el : A.elements()) { el.v = static_cast<int>((j*7 + salt) % 50); vals.push_back(el.v); ++j; } }
		std::string const data = save(A, arch);
		Arr B; if(!prior_default) { B = Arr(vp::ops::make_ext<2>(e0)); for(auto& el : B.elements()) { el.v = 77; } }
		load(data, B, arch);
		VP_CHECK(obs().errors.empty(), "serial/lifetime_error", obs().errors.front());
		long sb[2]; vp::lib_sizes(B, sb);
		VP_CHECK(B.num_elements() == A.num_elements() && (A.num_elements() == 0 || (sb[0] == e[0] && sb[1] == e[1])), "serial/extents", "loaded " << sb[0] << "x" << sb[1]);
		{ std::size_t j = 0; for(auto const& el : B.elements()) { VP_CHECK(obs().alive.count(&el) == 1, "serial/dead_element", "loaded element " << j << " is not a live object"); VP_CHECK(el.v == vals[j], "serial/elements", "element " << j << " differs after the round trip"); ++j; } }
		VP_CHECK(static_cast<long>(obs().alive.size()) == 2*static_cast<long>(A.num_elements()), "serial/stray_elements", obs().alive.size() << " live elements while the two arrays hold " << 2*A.num_elements());
		VP_CHECK(static_cast<long>(obs().blocks.size()) == (A.num_elements() > 0 ? 2 : 0), "serial/stray_blocks", obs().blocks.size() << " outstanding blocks");
	}
	VP_CHECK(obs().errors.empty(), "serial/lifetime_error", "at destruction: " << obs().errors.front());
	VP_CHECK(obs().alive.empty(), "serial/leak", obs().alive.size() << " elements still alive after both arrays died");
	VP_CHECK(obs().blocks.empty(), "serial/block_leak", obs().blocks.size() << " block(s) never returned to the allocator");
	ctx.nontrivial = e[0]*e[1] >= 2;
	ctx.label(an[arch]); ctx.label("tracked"); ctx.label(prior_default ? "prior_empty" : (e0[0] == e[0] && e0[1] == e[1]) ? "prior_same" : "prior_different");
}

// views: a view saves exactly its own elements in canonical order and loads them back into a view of equal extents without touching other elements
template<int D>
void run_view(Input const& in, Ctx& ctx) {
	long e[D]; long n = 1; for(int k = 0; k < D; ++k) { e[k] = 1 + static_cast<long>(in.head(2 + k) % 4U); n *= e[k]; }
	int const arch = static_cast<int>(in.head(6) % 3U);
	int const ksave = (in.head(7) % 9U) == 0 ? static_cast<int>(vp::ops::K_REF) : vp::ops::kLayoutKinds[(in.head(7) % 9U) - 1];
	// an array_ref is archived as one flat block (its own format): it is loaded back into an array_ref; views interchange among all view layouts
	int const kload = ksave == vp::ops::K_REF ? static_cast<int>(vp::ops::K_REF) : vp::ops::kLayoutKinds[in.head(8) % 8U];
	unsigned const salt = in.head(9);
	static char const* const an[] = {"text", "binary", "xml"};
	ctx.desc << "view<int," << D << ">("; for(int k = 0; k < D; ++k) { ctx.desc << (k ? "x" : "") << e[k]; } ctx.desc << ") " << an[arch] << " save from " << vp::ops::kind_name[ksave] << ", load into " << vp::ops::kind_name[kload];
	vp::ops::Val src; src.ext.assign(e, e + D); src.v.resize(static_cast<std::size_t>(n)); for(long j = 0; j < n; ++j) { src.v[static_cast<std::size_t>(j)] = static_cast<int>((j*5 + salt) % 90) + 100; }
	vp::ops::Val dst = src; for(auto& x : dst.v) { x = -1; }
	std::string data, data_of_copy;
	vp::ops::with_operand<D, int, true>(src, ksave, [&](auto& v) {
		data = save(v, arch);
		multi::array<int, D> copy{v};
		auto&& cv = copy();
		data_of_copy = save(cv, arch);
	});
	VP_CHECK(ksave == vp::ops::K_REF || data == data_of_copy, "serial/view_stream", "the archive of a view differs from the archive of a contiguous view with the same elements (it must hold exactly the elements in canonical order)");
	vp::ops::with_operand<D, int, true>(dst, kload, [&](auto& w) {
		auto parent = vp::ops::last_parent<int>();
		std::vector<int> before(parent.first, parent.first + parent.second);
		load(data, w, arch);
		std::size_t j = 0; std::vector<int const*> inside;
		for(auto const& el : w.elements()) { VP_CHECK(el == src.v[j], "serial/view_elements", "element " << j << " of the loaded view is " << el << ", saved " << src.v[j]); inside.push_back(std::addressof(el)); ++j; }
		std::sort(inside.begin(), inside.end());
		for(long i = 0; i < parent.second; ++i) { if(!std::binary_search(inside.begin(), inside.end(), parent.first + i)) { VP_CHECK(parent.first[i] == before[static_cast<std::size_t>(i)], "serial/view_load_stray", "loading into a view changed parent cell " << i << " outside the view"); } }
	});
	ctx.nontrivial = n >= 2 && (ksave != vp::ops::K_VIEW || kload != vp::ops::K_VIEW);
	ctx.label(an[arch]); ctx.label("view");
}
}  // namespace

struct Prop {
	static constexpr char const* id = "C17";
	static constexpr int H = 12, R = 1, MAXOPS = 0;
	static void run(Input const& in, Ctx& ctx) {
		switch(in.head(0) % 14U) {
			case 12: case 13: run_tracked(in, ctx); break;
			case 0: run_array<int, 0>(in, ctx, "int"); break;
			case 1: run_array<int, 1>(in, ctx, "int"); break;
			case 2: run_array<int, 2>(in, ctx, "int"); break;
			case 3: run_array<int, 3>(in, ctx, "int"); break;
			case 4: run_array<int, 4>(in, ctx, "int"); break;
			case 5: run_array<double, 2>(in, ctx, "double"); break;
			case 6: run_array<std::string, 1>(in, ctx, "string"); break;
			case 7: run_array<std::string, 2>(in, ctx, "string"); break;
			case 8: run_array<multi::array<int, 1>, 1>(in, ctx, "array<int,1>"); break;
			case 9: run_view<1>(in, ctx); break;
			case 10: run_view<2>(in, ctx); break;
			default: run_view<3>(in, ctx); break;
		}
	}
};
VP_MAIN(Prop)
