// C18 — MPI messages built from a view denote exactly its elements in canonical order; datatypes are committed before use and freed exactly once
// Single process: MPI_Pack / MPI_Unpack / MPI_Sendrecv on MPI_COMM_SELF; every MPI datatype call goes through a PMPI ledger defined in this file.
#ifndef VP_C18_T
#define VP_C18_T 0
#endif
#ifndef VP_C18_BASED
#define VP_C18_BASED 0  // 1: roots with non-zero index bases and the re-indexing operations (reindexed, blocked) in the view programs
#endif

#include "../c01.hpp"
#include "../operands.hpp"

#include <boost/multi/adaptors/mpi.hpp>

#include <set>

// ------------------------------------------------------------------------------------------------ datatype ledger (PMPI interposition)
namespace ledger {
struct L {
	std::set<MPI_Datatype> live, committed, dead;
	std::vector<std::string> errors;
	long created = 0, freed = 0, commits = 0, uses = 0;
	void reset() { *this = L{}; }
	void error(std::string e) { if(errors.size() < 10) { errors.push_back(std::move(e)); } }
	void born(MPI_Datatype* t) { if(*t != MPI_DATATYPE_NULL) { live.insert(*t); dead.erase(*t); committed.erase(*t); ++created; } }
	// a type handed to MPI as an ingredient of another type: must not be a freed handle
	bool ingredient(MPI_Datatype t, char const* fn) { if(dead.count(t) != 0) { error(std::string(fn) + ": built from a datatype that was already freed"); return false; } return true; }
	// a type used to describe a buffer: if it was created here it must be committed and not freed
	bool use(MPI_Datatype t, char const* fn) {
		++uses;
		if(t == MPI_DATATYPE_NULL) { error(std::string(fn) + ": null datatype"); return false; }
		if(dead.count(t) != 0) { error(std::string(fn) + ": datatype used after it was freed"); return false; }
		if(live.count(t) != 0 && committed.count(t) == 0) { error(std::string(fn) + ": datatype used before it was committed"); return false; }
		return true;
	}
};
inline L& l() { static L x; return x; }
}  // namespace ledger

extern "C" {
int MPI_Type_create_hvector(int count, int blocklength, MPI_Aint stride, MPI_Datatype oldtype, MPI_Datatype* newtype) { if(!ledger::l().ingredient(oldtype, "MPI_Type_create_hvector")) { return MPI_ERR_TYPE; } int r = PMPI_Type_create_hvector(count, blocklength, stride, oldtype, newtype); if(r == MPI_SUCCESS) { ledger::l().born(newtype); } return r; }
int MPI_Type_create_resized(MPI_Datatype oldtype, MPI_Aint lb, MPI_Aint extent, MPI_Datatype* newtype) { if(!ledger::l().ingredient(oldtype, "MPI_Type_create_resized")) { return MPI_ERR_TYPE; } int r = PMPI_Type_create_resized(oldtype, lb, extent, newtype); if(r == MPI_SUCCESS) { ledger::l().born(newtype); } return r; }
int MPI_Type_vector(int count, int blocklength, int stride, MPI_Datatype oldtype, MPI_Datatype* newtype) { if(!ledger::l().ingredient(oldtype, "MPI_Type_vector")) { return MPI_ERR_TYPE; } int r = PMPI_Type_vector(count, blocklength, stride, oldtype, newtype); if(r == MPI_SUCCESS) { ledger::l().born(newtype); } return r; }
int MPI_Type_contiguous(int count, MPI_Datatype oldtype, MPI_Datatype* newtype) { if(!ledger::l().ingredient(oldtype, "MPI_Type_contiguous")) { return MPI_ERR_TYPE; } int r = PMPI_Type_contiguous(count, oldtype, newtype); if(r == MPI_SUCCESS) { ledger::l().born(newtype); } return r; }
int MPI_Type_dup(MPI_Datatype oldtype, MPI_Datatype* newtype) { if(!ledger::l().ingredient(oldtype, "MPI_Type_dup")) { return MPI_ERR_TYPE; } int r = PMPI_Type_dup(oldtype, newtype); if(r == MPI_SUCCESS) { ledger::l().born(newtype); } return r; }
int MPI_Type_create_subarray(int ndims, int const sizes[], int const subsizes[], int const starts[], int order, MPI_Datatype oldtype, MPI_Datatype* newtype) { if(!ledger::l().ingredient(oldtype, "MPI_Type_create_subarray")) { return MPI_ERR_TYPE; } int r = PMPI_Type_create_subarray(ndims, sizes, subsizes, starts, order, oldtype, newtype); if(r == MPI_SUCCESS) { ledger::l().born(newtype); } return r; }
int MPI_Type_create_hindexed(int count, int const bl[], MPI_Aint const disp[], MPI_Datatype oldtype, MPI_Datatype* newtype) { if(!ledger::l().ingredient(oldtype, "MPI_Type_create_hindexed")) { return MPI_ERR_TYPE; } int r = PMPI_Type_create_hindexed(count, bl, disp, oldtype, newtype); if(r == MPI_SUCCESS) { ledger::l().born(newtype); } return r; }
int MPI_Type_indexed(int count, int const bl[], int const disp[], MPI_Datatype oldtype, MPI_Datatype* newtype) { if(!ledger::l().ingredient(oldtype, "MPI_Type_indexed")) { return MPI_ERR_TYPE; } int r = PMPI_Type_indexed(count, bl, disp, oldtype, newtype); if(r == MPI_SUCCESS) { ledger::l().born(newtype); } return r; }
int MPI_Type_create_struct(int count, int const bl[], MPI_Aint const disp[], MPI_Datatype const types[], MPI_Datatype* newtype) { for(int i = 0; i < count; ++i) { if(!ledger::l().ingredient(types[i], "MPI_Type_create_struct")) { return MPI_ERR_TYPE; } } int r = PMPI_Type_create_struct(count, bl, disp, types, newtype); if(r == MPI_SUCCESS) { ledger::l().born(newtype); } return r; }
int MPI_Type_commit(MPI_Datatype* t) {
	auto& g = ledger::l();
	if(g.dead.count(*t) != 0) { g.error("MPI_Type_commit: datatype was already freed"); return MPI_ERR_TYPE; }
	int r = PMPI_Type_commit(t); if(r == MPI_SUCCESS && g.live.count(*t) != 0) { g.committed.insert(*t); ++g.commits; } return r;
}
int MPI_Type_free(MPI_Datatype* t) {
	auto& g = ledger::l();
	if(g.dead.count(*t) != 0) { g.error("MPI_Type_free: datatype freed twice"); *t = MPI_DATATYPE_NULL; return MPI_ERR_TYPE; }
	if(g.live.count(*t) == 0) { g.error("MPI_Type_free: freeing a datatype that was not created by the adaptor"); return MPI_ERR_TYPE; }
	g.live.erase(*t); g.committed.erase(*t); g.dead.insert(*t); ++g.freed;
	return PMPI_Type_free(t);
}
int MPI_Pack(void const* inbuf, int incount, MPI_Datatype datatype, void* outbuf, int outsize, int* position, MPI_Comm comm) { if(!ledger::l().use(datatype, "MPI_Pack")) { return MPI_ERR_TYPE; } return PMPI_Pack(inbuf, incount, datatype, outbuf, outsize, position, comm); }
int MPI_Unpack(void const* inbuf, int insize, int* position, void* outbuf, int outcount, MPI_Datatype datatype, MPI_Comm comm) { if(!ledger::l().use(datatype, "MPI_Unpack")) { return MPI_ERR_TYPE; } return PMPI_Unpack(inbuf, insize, position, outbuf, outcount, datatype, comm); }
int MPI_Pack_size(int incount, MPI_Datatype datatype, MPI_Comm comm, int* size) { if(!ledger::l().use(datatype, "MPI_Pack_size")) { return MPI_ERR_TYPE; } return PMPI_Pack_size(incount, datatype, comm, size); }
int MPI_Sendrecv(void const* sendbuf, int sendcount, MPI_Datatype sendtype, int dest, int sendtag, void* recvbuf, int recvcount, MPI_Datatype recvtype, int source, int recvtag, MPI_Comm comm, MPI_Status* status) {
	if(!ledger::l().use(sendtype, "MPI_Sendrecv(send)") || !ledger::l().use(recvtype, "MPI_Sendrecv(recv)")) { return MPI_ERR_TYPE; }
	return PMPI_Sendrecv(sendbuf, sendcount, sendtype, dest, sendtag, recvbuf, recvcount, recvtype, source, recvtag, comm, status);
}
}  // extern "C"

namespace {
namespace multi = boost::multi;
namespace mpi = boost::multi::mpi;
using vp::Ctx; using vp::Input; using vp::Model;

#if VP_C18_T == 0
using ELEMT = int;
constexpr char const* kTName = "int";
#elif VP_C18_T == 1
using ELEMT = double;
constexpr char const* kTName = "double";
#else
using ELEMT = float;
constexpr char const* kTName = "float";
#endif

struct MpiSession {
	MpiSession() {
		int inited = 0; MPI_Initialized(&inited);
		if(inited == 0) { MPI_Init(nullptr, nullptr); }
		MPI_Comm_set_errhandler(MPI_COMM_WORLD, MPI_ERRORS_RETURN);
		MPI_Comm_set_errhandler(MPI_COMM_SELF, MPI_ERRORS_RETURN);
	}
};
void ensure_mpi() { static MpiSession s; (void)s; }

enum Form { F_MESSAGE_ELEMENTS, F_MESSAGE_BASE_LAYOUT, F_SKELETON_LAYOUT, F_SKELETON_T, F_SKELETON_ELEMENTS_LAYOUT, F_CREATE_SUBARRAY, F_MESSAGE_MOVED_SKELETON, F_DATA_ITERATOR, NFORMS };
char const* const kFormName[] = {"message(v.elements())", "message{v.base(), v.layout(), dt}", "skeleton(v.layout(), dt)", "skeleton<T>(v.layout())", "skeleton(v.elements().layout(), dt)", "create_subarray(v.layout(), dt, &t)", "message(base, skeleton&&)", "data(v.begin())"};

template<class P> void* vptr(P p) { return const_cast<void*>(static_cast<void const*>(p)); }  // NOLINT the adaptor itself casts constness away: MPI takes void*

// builds the (buffer, count, datatype) triple of view v through the chosen front end and calls use(buf, count, datatype) while it is alive
template<class V, class Use>
void with_message(V& v, int form, Use&& use) {
	MPI_Datatype const dt = mpi::datatype<ELEMT>;
	switch(form) {
		case F_MESSAGE_ELEMENTS: { mpi::message<> const msg(v.elements()); use(msg.buffer(), msg.count(), msg.datatype()); return; }
		case F_MESSAGE_BASE_LAYOUT: { mpi::message<> const msg{vptr(v.base()), v.layout(), dt}; use(msg.buffer(), msg.count(), msg.datatype()); return; }
		case F_SKELETON_LAYOUT: { mpi::skeleton<> const sk(v.layout(), dt); use(vptr(v.base()), sk.count(), sk.datatype()); return; }
		case F_SKELETON_T: { mpi::skeleton<ELEMT> const sk(v.layout()); use(vptr(v.base()), sk.count(), sk.datatype()); return; }
		case F_SKELETON_ELEMENTS_LAYOUT: { auto&& el = v.elements(); mpi::skeleton<> const sk(el.layout(), dt); use(vptr(el.base()), sk.count(), sk.datatype()); return; }
		case F_CREATE_SUBARRAY: {
			MPI_Datatype t;  // NOLINT
			mpi::create_subarray(v.layout(), dt, &t);
			MPI_Type_commit(&t);  // as in the adaptor's documentation and test: the caller commits and frees
			use(vptr(v.base()), 1, t);
			MPI_Type_free(&t);
			return;
		}
		case F_MESSAGE_MOVED_SKELETON: { auto&& el = v.elements(); mpi::message<> const msg(vptr(el.base()), mpi::skeleton<void, int>(el.layout(), dt)); use(msg.buffer(), msg.count(), msg.datatype()); return; }
		default: {
			if constexpr(vp::rank_of<V> == 1) { mpi::data const d(v.begin()); use(d.buffer(), static_cast<int>(v.size()), d.datatype()); }
			else { mpi::message<> const msg(v.elements()); use(msg.buffer(), msg.count(), msg.datatype()); }
			return;
		}
	}
}

void check_ledger(char const* when) {
	auto& g = ledger::l();
	VP_CHECK(g.errors.empty(), "mpi/datatype_lifecycle", when << ": " << g.errors.front());
}
void check_ledger_end(char const* when) {
	auto& g = ledger::l();
	check_ledger(when);
	VP_CHECK(g.live.empty(), "mpi/datatype_leak", when << ": " << g.live.size() << " created datatype(s) never freed (created " << g.created << ", freed " << g.freed << ")");
}

std::vector<ELEMT> pack(void* buf, int count, MPI_Datatype t, long expect_n, char const* what) {
	int bytes = -1;
	int r = MPI_Pack_size(count, t, MPI_COMM_SELF, &bytes);
	check_ledger(what);
	VP_CHECK(r == MPI_SUCCESS, "mpi/pack_size_error", what << ": MPI_Pack_size returned " << r);
	std::vector<char> out(static_cast<std::size_t>(bytes) + 64, 0);
	int pos = 0;
	r = MPI_Pack(buf, count, t, out.data(), static_cast<int>(out.size()), &pos, MPI_COMM_SELF);
	check_ledger(what);
	VP_CHECK(r == MPI_SUCCESS, "mpi/pack_error", what << ": MPI_Pack returned " << r);
	VP_CHECK(pos == static_cast<int>(expect_n*static_cast<long>(sizeof(ELEMT))), "mpi/message_size", what << ": the message denotes " << pos << " bytes = " << (static_cast<std::size_t>(pos)/sizeof(ELEMT)) << " elements, the view has " << expect_n);
	std::vector<ELEMT> v(static_cast<std::size_t>(expect_n));
	if(expect_n > 0) { std::memcpy(v.data(), out.data(), static_cast<std::size_t>(pos)); }
	return v;
}

void transfer(int transport, void* sbuf, int scount, MPI_Datatype st, void* dbuf, int dcount, MPI_Datatype dt_, long n, char const* what) {
	if(transport == 0) {
		std::vector<char> tmp(static_cast<std::size_t>(n)*sizeof(ELEMT) + 64, 0);
		int pos = 0;
		int r = MPI_Pack(sbuf, scount, st, tmp.data(), static_cast<int>(tmp.size()), &pos, MPI_COMM_SELF);
		check_ledger(what);
		VP_CHECK(r == MPI_SUCCESS, "mpi/pack_error", what << ": MPI_Pack returned " << r);
		int const packed = pos; pos = 0;
		r = MPI_Unpack(tmp.data(), packed, &pos, dbuf, dcount, dt_, MPI_COMM_SELF);
		check_ledger(what);
		VP_CHECK(r == MPI_SUCCESS, "mpi/unpack_error", what << ": MPI_Unpack returned " << r);
		VP_CHECK(pos == packed, "mpi/unpack_size", what << ": unpacking consumed " << pos << " of " << packed << " packed bytes");
	} else {
		MPI_Status status;
		int r = MPI_Sendrecv(sbuf, scount, st, 0, 7, dbuf, dcount, dt_, 0, 7, MPI_COMM_SELF, &status);
		check_ledger(what);
		VP_CHECK(r == MPI_SUCCESS, "mpi/sendrecv_error", what << ": MPI_Sendrecv returned " << r);
		int got = -1; MPI_Get_count(&status, mpi::datatype<ELEMT>, &got);
		VP_CHECK(got == static_cast<int>(n), "mpi/recv_count", what << ": received " << got << " elements, the view has " << n);
	}
}

struct Plan { int form_v, form_w, role, transport, Dw, kind; unsigned da, db, salt; };

struct C18Fin {
	ELEMT const* root; long N; Plan plan; Ctx& ctx;

	template<int DW, class V>
	void with_partner(V& v, Model const& m, std::vector<long> const& posv) {
		long const n = m.nelems();
		// partner view: n elements arranged in DW dimensions (extents from divisors of n), realised with one of the layouts of operands.hpp
		std::vector<long> divs; for(long a = 1; a <= n; ++a) { if(n % a == 0) { divs.push_back(a); } }
		long e[DW]; long rest = n;
		for(int k = 0; k + 1 < DW; ++k) { std::vector<long> dv; for(long a : divs) { if(rest % a == 0) { dv.push_back(a); } } e[k] = dv[(k == 0 ? plan.da : plan.db) % dv.size()]; rest /= e[k]; }
		e[DW - 1] = rest;
		vp::ops::Val w0; w0.ext.assign(e, e + DW); w0.v.resize(static_cast<std::size_t>(n));
		for(long k = 0; k < n; ++k) { w0.v[static_cast<std::size_t>(k)] = static_cast<int>(100000 + (k*3 + plan.salt) % 9000); }
		constexpr bool v_mutable = !std::is_const_v<std::remove_reference_t<decltype(*v.elements().begin())>>;
		bool const to_view = plan.role == 1 && v_mutable;
		int const fw = plan.form_w == F_DATA_ITERATOR && !(DW == 1 && (plan.kind == vp::ops::K_ARRAY || plan.kind == vp::ops::K_REF || plan.kind == vp::ops::K_VIEW)) ? 0 : plan.form_w;
		ctx.desc << "; partner " << vp::ops::kind_name[plan.kind] << "(";
		for(int k = 0; k < DW; ++k) { ctx.desc << (k ? "x" : "") << e[k]; }
		ctx.desc << ") via " << kFormName[fw] << (!to_view ? "; view -> partner" : "; partner -> view") << (plan.transport == 0 ? " by Pack/Unpack" : " by Sendrecv");
		vp::ops::with_operand<DW, ELEMT, true>(w0, plan.kind, [&](auto& w) {
			auto parent = vp::ops::last_parent<ELEMT>();
			with_message(w, fw, [&](void* wbuf, int wcount, MPI_Datatype wt) {
				with_message(v, plan.form_v, [&](void* vbuf, int vcount, MPI_Datatype vt) {
					if(!to_view) {
						std::vector<ELEMT> before(parent.first, parent.first + parent.second);
						transfer(plan.transport, vbuf, vcount, vt, wbuf, wcount, wt, n, "view -> partner");
						std::size_t k = 0; std::vector<ELEMT const*> inside;
						for(auto const& el : w.elements()) { VP_CHECK(el == static_cast<ELEMT>(posv[k]), "mpi/received_element", "element " << k << " of the receiving view is " << el << ", element " << k << " of the sending view is " << posv[k]); inside.push_back(std::addressof(el)); ++k; }
						std::sort(inside.begin(), inside.end());
						for(long i = 0; i < parent.second; ++i) { if(!std::binary_search(inside.begin(), inside.end(), parent.first + i)) { VP_CHECK(parent.first[i] == before[static_cast<std::size_t>(i)], "mpi/receive_stray", "receiving changed parent cell " << i << " outside the receiving view"); } }
						ctx.label("view_sends");
					} else {
						if constexpr(v_mutable) {
							auto* mroot = const_cast<ELEMT*>(root);  // NOLINT the root object is mutable in this branch
							std::vector<ELEMT> before(mroot, mroot + N);
							transfer(plan.transport, wbuf, wcount, wt, vbuf, vcount, vt, n, "partner -> view");
							std::vector<char> hit(static_cast<std::size_t>(N), 0);
							for(std::size_t k = 0; k < posv.size(); ++k) {
								hit[static_cast<std::size_t>(posv[k])] = 1;
								VP_CHECK(mroot[posv[k]] == static_cast<ELEMT>(w0.v[k]), "mpi/received_element", "element " << k << " of the receiving view (root cell " << posv[k] << ") is " << mroot[posv[k]] << ", element " << k << " of the sending view is " << w0.v[k]);
							}
							for(long i = 0; i < N; ++i) { if(hit[static_cast<std::size_t>(i)] == 0) { VP_CHECK(mroot[i] == before[static_cast<std::size_t>(i)], "mpi/receive_stray", "receiving changed root cell " << i << " outside the receiving view"); } }
							ctx.label("view_receives");
						}
					}
				});
			});
		});
	}

	template<class V, class I>
	void operator()(V& v, Model& m, I& interp) {
		constexpr int D = vp::rank_of<V>;
		ctx.desc << " => "; m.print(ctx.desc);
		if constexpr(D == 0) { ctx.label("final_D0_skipped"); return; }
		else {
			if(m.empty()) { ctx.label("final_empty_skipped"); return; }
			long const n = m.nelems();
			// canonical-order root positions of the view's elements (model)
			std::vector<long> posv; posv.reserve(static_cast<std::size_t>(n));
			{ long ord[D] = {}; do { posv.push_back(m.pos(ord)); } while(vp::next_ord(m, ord)); }
			ledger::l().reset();
			// data(iterator) carries no stride in its datatype's extent (the repository's own mpi.cpp pins that: a strided(2) view sent through it arrives as the
			// contiguous elements), and the property speaks of messages built from elements(): this front end is exercised for unit-stride 1-D views only
			bool const data_ok = D == 1 && m.d[0].stride == 1;
			int const fv = plan.form_v == F_DATA_ITERATOR && !data_ok ? 0 : plan.form_v;
			ctx.desc << " via " << kFormName[fv];
			// (1) the message denotes exactly the elements, in canonical order
			with_message(v, fv, [&](void* buf, int count, MPI_Datatype t) {
				auto got = pack(buf, count, t, n, kFormName[fv]);
				for(std::size_t k = 0; k < got.size(); ++k) { VP_CHECK(got[k] == static_cast<ELEMT>(posv[k]), "mpi/message_elements", "element " << k << " of the message is root cell " << got[k] << ", element " << k << " of the view is root cell " << posv[k]); }
			});
			check_ledger_end("after the message was destroyed");
			// (2) transfer to / from a view of another layout
			plan.form_v = fv;
			switch(plan.Dw) { case 1: with_partner<1>(v, m, posv); break; case 2: with_partner<2>(v, m, posv); break; default: with_partner<3>(v, m, posv); break; }
			check_ledger_end("after both messages were destroyed");
			ctx.count("datatypes_created", ledger::l().created);
			ctx.nontrivial = n >= 2 && (D >= 2 || !m.compact_rowmajor());
			ctx.label(kFormName[fv]);
			static char const* const dl[] = {"finalD0", "finalD1", "finalD2", "finalD3", "finalD4", "finalD5"};
			ctx.label(dl[D]);
			ctx.label(m.compact_rowmajor() ? "final_contiguous" : "final_noncontiguous");
			bool neg = false; for(auto const& x : m.d) { neg = neg || (x.stride < 0 && x.size > 1); }
			if(neg) { ctx.label("negative_stride"); }
			(void)interp;
		}
	}
};

template<int D>
void run_d(Input const& in, Ctx& ctx) {
	using Cfg = std::conditional_t<VP_C18_BASED != 0, vp::CfgBased, vp::CfgRaw>;
	auto r = vp::decode_root<D, Cfg::based>(in, ctx);
	if(r.N == 0) { ctx.label("root_empty_skipped"); return; }  // a view without elements has no message to check (and C01 owns the zero-element view algebra)
	Plan plan{static_cast<int>(in.head(10) % NFORMS), static_cast<int>(in.head(11) % NFORMS), static_cast<int>(in.head(12) % 2U), static_cast<int>(in.head(13) % 2U), 1 + static_cast<int>(in.head(14) % 3U), ((in.head(17) % 10U) < 7U ? static_cast<int>(in.head(17) % 10U) : static_cast<int>(vp::ops::K_INNER_STRIDED) + static_cast<int>(in.head(17) % 10U) - 7), in.head(15), in.head(16), in.head(18)};
	vp::with_root<Cfg, ELEMT, D>(r, [&](auto& root, Model m, ELEMT const* base, long N) {
		C18Fin fin{base, N, plan, ctx};
		vp::Interp<C18Fin, Cfg::based, 4> interp(in, ctx, fin);
		interp.null_root = (N == 0);
		interp.step(root, m);
	});
}
}  // namespace

struct Prop {
	static constexpr char const* id = "C18";
	static constexpr int H = 20, R = 4, MAXOPS = 8;
	static void run(Input const& in, Ctx& ctx) {
		ensure_mpi();
		ctx.desc << kTName << (VP_C18_BASED != 0 ? " (re-based) " : " ");
		switch(in.head(1) % 4) {
			case 0: run_d<1>(in, ctx); break;
			case 1: run_d<2>(in, ctx); break;
			case 2: run_d<3>(in, ctx); break;
			default: run_d<4>(in, ctx); break;
		}
	}
};
VP_MAIN(Prop)
