// C11 (containers) — the C04 / C06 state machine over allocators whose pointer is a fancy pointer
#include "../fancy.hpp"
#include "../machine.hpp"

namespace {
template<class Alloc, int D> void run_ad(vp::Input const& in, vp::Ctx& ctx, char const* name) {
	vp::obs().reset(); vp::fancy_errors().clear(); vp::chk().blocks.clear();
	using T = typename Alloc::value_type;
	ctx.desc << name << (std::is_same_v<T, int> ? " int D=" : " Tracked D=") << D;
	{
		vp::Machine<vp::MCfg<T, Alloc>, D> M(ctx);
		M.enabled = (vp::kValueOps | vp::kResizeOps) & ~vp::bit(vp::O_DECAY);
		M.run(in);
		ctx.nontrivial = M.nt && in.nops() >= 2;
	}
	VP_CHECK(vp::fancy_errors().empty(), "fancy/pointer_violation", vp::fancy_errors().front());
	ctx.count("checked_dereferences", vp::chk().derefs); vp::chk().derefs = 0;
	ctx.label(name); ctx.label("program_C04_C06");
}
}  // namespace

struct Prop {
	static constexpr char const* id = "C11";
	static constexpr int H = 2, R = 8, MAXOPS = 10;
	static void run(vp::Input const& in, vp::Ctx& ctx) {
		bool const use_chk = (in.head(0) & 1U) != 0;
		using vp::Tracked;
		if((in.head(0) & 6U) == 0) {  // a non-trivial element type: construction and destruction go through the fancy pointer too
			if((in.head(1) & 1U) != 0) { use_chk ? run_ad<vp::ChkAlloc<Tracked>, 2>(in, ctx, "chk_ptr") : run_ad<vp::OffAlloc<Tracked>, 2>(in, ctx, "off_ptr"); }
			else { use_chk ? run_ad<vp::ChkAlloc<Tracked>, 1>(in, ctx, "chk_ptr") : run_ad<vp::OffAlloc<Tracked>, 1>(in, ctx, "off_ptr"); }
			ctx.label("T_Tracked");
			return;
		}
		switch(in.head(1) % 3) {
			case 0: use_chk ? run_ad<vp::ChkAlloc<int>, 1>(in, ctx, "chk_ptr") : run_ad<vp::OffAlloc<int>, 1>(in, ctx, "off_ptr"); break;
			case 1: use_chk ? run_ad<vp::ChkAlloc<int>, 2>(in, ctx, "chk_ptr") : run_ad<vp::OffAlloc<int>, 2>(in, ctx, "off_ptr"); break;
			default: use_chk ? run_ad<vp::ChkAlloc<int>, 3>(in, ctx, "chk_ptr") : run_ad<vp::OffAlloc<int>, 3>(in, ctx, "off_ptr"); break;
		}
	}
};
VP_MAIN(Prop)
