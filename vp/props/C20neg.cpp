// C20 (negative half) — indexing outside a view's extension and assigning between views of different extents are stopped by a library assertion
// before any out-of-bounds access happens.  Every case runs in a forked child of the assertion-enabled build and must die by SIGABRT with an
// `Assertion ... failed` message from a file under include/boost/multi; a sanitizer report, another signal or a normal exit is a violation.
#include "../c01.hpp"
#include "../operands.hpp"

namespace {
using vp::Model; using vp::Ctx; using vp::Input;
namespace multi = boost::multi;

struct Death { bool sigabrt = false; bool multi_assert = false; bool sanitizer = false; int status = 0; std::string err; };

template<class F> Death death_test(F&& f) {
	char errpath[] = "/dev/shm/vp_death_XXXXXX";
	int efd = mkstemp(errpath);
	std::fflush(nullptr);
	pid_t pid = vp::fork_retry();
	if(pid < 0) { if(efd >= 0) { close(efd); unlink(errpath); } throw vp::Inconclusive{"fork failed"}; }
	if(pid == 0) {
		// (in fork mode this process inherits the case-runner's crash reporting: the expected abort of a death test must not be reported through it)
		vp::detach_crash_reporting();
		if(efd >= 0) { dup2(efd, 2); } alarm(20); f(); _exit(0);
	}
	int st = 0; pid_t wr; do { wr = waitpid(pid, &st, 0); } while(wr < 0 && errno == EINTR);
	if(wr != pid) { if(efd >= 0) { close(efd); unlink(errpath); } throw vp::Inconclusive{"waitpid failed"}; }
	if(WIFSIGNALED(st) && WTERMSIG(st) == SIGALRM) { if(efd >= 0) { close(efd); unlink(errpath); } throw vp::Inconclusive{"the forked death test did not finish within 20 s (load)"}; }
	if(efd < 0) { throw vp::Inconclusive{"no scratch file for the child's stderr"}; }
	Death d; d.status = st;
	if(efd >= 0) { char buf[4096]; ssize_t k; lseek(efd, 0, SEEK_SET); while((k = read(efd, buf, sizeof buf)) > 0 && d.err.size() < 6000) { d.err.append(buf, static_cast<std::size_t>(k)); } close(efd); unlink(errpath); }
	d.sigabrt = WIFSIGNALED(st) && WTERMSIG(st) == SIGABRT;
	d.sanitizer = d.err.find("Sanitizer") != std::string::npos || d.err.find("runtime error:") != std::string::npos;
	auto pos = d.err.find("Assertion `");
	if(pos != std::string::npos) { auto ls = d.err.rfind('\n', pos); ls = ls == std::string::npos ? 0 : ls + 1; d.multi_assert = d.err.substr(ls, pos - ls).find("include/boost/multi/") != std::string::npos; }
	return d;
}

void expect_assert(Death const& d, std::string const& what) {
	VP_CHECK(!d.sanitizer, "contract/access_before_assertion", what << ": a sanitizer reported an error instead of (or before) a library assertion:\n" << d.err.substr(0, 1200));
	VP_CHECK(d.sigabrt && d.multi_assert, "contract/no_assertion", what << ": not stopped by a library assertion (" << (WIFSIGNALED(d.status) ? "signal " + std::to_string(WTERMSIG(d.status)) : "exit status " + std::to_string(WEXITSTATUS(d.status))) << ")" << (d.err.empty() ? "" : "; stderr: " + d.err.substr(0, 400)));
}

// (slicing / dropped / taked with out-of-range arguments are not in the must-assert set: the property speaks of indexing and of assignment only, and the
// one-dimensional sliced() carries no bounds assertion)
enum Neg { N_BRACKET, N_CALL, N_ASSIGN_VIEW, N_ASSIGN_ELEMENTS, N_ASSIGN_ARRAY, N_BRACKET2, N_CALL2, NNEG, N_SLICED, N_DROPPED, N_TAKED };
char const* const neg_name[] = {"v[..][bad]", "v(..,bad)", "v = w (different extents)", "v.elements() = w.elements() (different size)", "v = array (different extents)", "v[..][bad]", "v(..,bad)", "", "sliced(bad)", "dropped(n>size)", "taked(n>size)"};

template<class V> void touch(V&& v) {  // force the access: read the first element of whatever was designated
	if constexpr(std::is_arithmetic_v<std::decay_t<V>>) { volatile auto x = v; (void)x; }
	else { if(v.num_elements() > 0) { volatile auto x = *v.elements().begin(); (void)x; } }
}
template<class V> void bad_bracket(V&& v, long const* idx, int depth) {  // valid indices down to `depth`, the index at `depth` is out of range
	if constexpr(vp::rank_of<V> == 1) { touch(v[idx[0]]); (void)depth; }
	else { if(depth == 0) { touch(v[idx[0]]); } else { bad_bracket(v[idx[0]], idx + 1, depth - 1); } }
}
template<int D, class V, std::size_t... I> void call_all(V&& v, long const* idx, std::index_sequence<I...>) { touch(v(static_cast<multi::index>(idx[I])...)); }

// call syntax with the out-of-range index at position `depth` and ranges / all in the other positions
template<int D, class V> void call_mixed(V&& v, long const* idx, int depth, Model const& m) {
	auto rg = [&](int k) { auto const& d = m.d[static_cast<std::size_t>(k)]; return multi::irange{static_cast<multi::index>(d.first), static_cast<multi::index>(d.first + d.size)}; };
	auto ix = [&](int k) { return static_cast<multi::index>(idx[k]); };
	if constexpr(D == 2) { if(depth == 0) { touch(v(ix(0), multi::_)); } else { touch(v(rg(0), ix(1))); } }
	else if constexpr(D == 3) {
		if(depth == 0) { touch(v(ix(0), multi::_, rg(2))); } else if(depth == 1) { touch(v(multi::_, ix(1), multi::_)); } else { touch(v(rg(0), multi::_, ix(2))); }
	} else { (void)rg; touch(v(ix(0))); (void)depth; }
}

struct Fin {
	int* root; long N; Ctx& ctx; Input const& in;
	template<class V, class I>
	void operator()(V& v, Model& m, I& interp) {
		constexpr int D = vp::rank_of<V>;
		ctx.desc << " => "; m.print(ctx.desc);
		if(m.empty()) { ctx.count("empty_view_skipped"); return; }  // (every index of an empty view is outside; its extension is collapsed)
		unsigned const kind = in.head(10) % NNEG;
		unsigned const a = in.head(11), b = in.head(12);
		ctx.desc << " ; " << neg_name[kind];
		int const depth = static_cast<int>(a % static_cast<unsigned>(D));
		long const over = 1 + static_cast<long>(b % 3U);
		bool const below = (b & 4U) != 0;
		auto const& dd = m.d[static_cast<std::size_t>(depth)];
		long idx[D]; for(int k = 0; k < D; ++k) { idx[k] = m.d[static_cast<std::size_t>(k)].first + static_cast<long>((a >> 2U) + 3U*static_cast<unsigned>(k)) % m.d[static_cast<std::size_t>(k)].size; }
		idx[depth] = below ? dd.first - over : dd.first + dd.size - 1 + over;
		ctx.nontrivial = interp.applied >= 2;
		switch(kind) {
			case N_BRACKET: case N_BRACKET2: ctx.desc << " depth " << depth << " index " << idx[depth]; expect_assert(death_test([&] { bad_bracket(v, idx, depth); }), "chained index out of range"); break;
			case N_CALL: case N_CALL2:
				ctx.desc << " position " << depth << " index " << idx[depth];
				if((a & 128U) != 0 && (D == 2 || D == 3)) { ctx.desc << " (ranges / all in the other positions)"; ctx.label("call_mixed_arguments"); expect_assert(death_test([&] { call_mixed<D>(v, idx, depth, m); }), "call-syntax index out of range next to range arguments"); }
				else { expect_assert(death_test([&] { call_all<D>(v, idx, std::make_index_sequence<static_cast<std::size_t>(D)>{}); }), "call-syntax index out of range"); }
				break;
			case N_SLICED: {
				auto const& d0 = m.d[0];
				long lo = below ? d0.first - over : d0.first + static_cast<long>(a % static_cast<unsigned>(d0.size));
				long hi = below ? d0.first + 1 + static_cast<long>(a % static_cast<unsigned>(d0.size)) : d0.first + d0.size + over;
				ctx.desc << '(' << lo << ',' << hi << ')';
				expect_assert(death_test([&] { touch(v.sliced(lo, hi)); }), "sliced with a bound outside the extension");
				break;
			}
			case N_DROPPED: { long n = m.d[0].size + over; ctx.desc << '(' << n << ')'; expect_assert(death_test([&] { touch(std::as_const(v).dropped(n)); }), "dropped(n) with n > size()"); break; }
			case N_TAKED: { long n = m.d[0].size + over; ctx.desc << '(' << n << ')'; expect_assert(death_test([&] { touch(std::as_const(v).taked(n)); }), "taked(n) with n > size()"); break; }
			default: {
				if constexpr(std::is_const_v<V> || vp::is_csub<V>::value || vp::is_owning<V>::value || !std::is_same_v<typename V::element_ptr, int*>) { ctx.count("destination_not_a_mutable_view"); ctx.nontrivial = false; break; }
				else {
					auto&& dst = v();  // the destination is a view (an array_ref assigns flat by element count: its own, documented TODO, not a view assignment)
					auto& v = dst;
					// a source whose extents differ from the destination's in one dimension (leading or inner)
					vp::ops::Val src; src.ext.resize(static_cast<std::size_t>(D)); for(int k = 0; k < D; ++k) { src.ext[static_cast<std::size_t>(k)] = m.d[static_cast<std::size_t>(k)].size; }
					bool permuted = false;
					if constexpr(D >= 3) { if((b & 64U) != 0 && src.ext[1] != src.ext[2] && kind != N_ASSIGN_ELEMENTS) { std::swap(src.ext[1], src.ext[2]); permuted = true; ctx.desc << " (inner extents swapped: same leading extent, same element count)"; } }
					if(!permuted) { src.ext[static_cast<std::size_t>(depth)] += below && src.ext[static_cast<std::size_t>(depth)] > 1 ? -1 : over; }
					src.v.assign(static_cast<std::size_t>(src.n()), 5);
					ctx.desc << " source extents differ in dimension " << depth << " (" << m.d[static_cast<std::size_t>(depth)].size << " vs " << src.ext[static_cast<std::size_t>(depth)] << ")";
					if(kind == N_ASSIGN_ARRAY) {
						if((b & 128U) != 0) { ctx.desc << " (array<long>)"; vp::ops::with_operand<D, long, false>(src, vp::ops::K_ARRAY, [&](auto const& w) { expect_assert(death_test([&] { v = w; }), "view = array of another element type and different extents"); }); }
						else { vp::ops::with_operand<D, int, true>(src, vp::ops::K_ARRAY, [&](auto& w) { expect_assert(death_test([&] { v = w; }), "view = array of different extents"); }); }
					} else if(kind == N_ASSIGN_VIEW && ((b >> 3U) % 9U) >= 7U) {
						// sources of another (convertible) element type go through their own assignment overloads
						int sk = 2 + static_cast<int>(b % 5U);
						ctx.desc << " (source view of long)";
						vp::ops::with_operand<D, long, false>(src, sk, [&](auto const& w) {
							if(((b >> 3U) % 9U) == 7U) { expect_assert(death_test([&] { v = w; }), "lvalue view = view of another element type and different extents"); }
							else { expect_assert(death_test([&] { std::move(v) = w; }), "rvalue view = view of another element type and different extents"); }
						});
					} else {
						int sk = 2 + static_cast<int>(b % 5U);
						vp::ops::with_operand<D, int, true>(src, sk, [&](auto& w) {
							if(kind == N_ASSIGN_VIEW) {
								switch((b >> 3U) % 9U) {
									case 5: expect_assert(death_test([&] { v = std::as_const(w)(); }), "lvalue view = temporary read-only view of different extents"); break;
									case 6: expect_assert(death_test([&] { std::move(v) = std::as_const(w)(); }), "rvalue view = temporary read-only view of different extents"); break;
									case 0: expect_assert(death_test([&] { v = w; }), "lvalue view = view of different extents"); break;
									case 1: expect_assert(death_test([&] { std::move(v) = w; }), "rvalue view = view of different extents"); break;
									case 2: expect_assert(death_test([&] { v = std::move(w); }), "lvalue view = rvalue view of different extents (A() = B())"); break;
									case 3: expect_assert(death_test([&] { std::move(v) = std::move(w); }), "rvalue view = rvalue view of different extents"); break;
									default: expect_assert(death_test([&] { v = std::as_const(w); }), "view = const view of different extents"); break;
								}
							} else { expect_assert(death_test([&] { v.elements() = w.elements(); }), "elements() = elements() of different size"); }
						});
					}
				}
				break;
			}
		}
		ctx.label(neg_name[kind]);
	}
};

template<int D, class Cfg = vp::CfgRaw>
void run_d(Input const& in, Ctx& ctx) {
	auto r = vp::decode_root<D, Cfg::based>(in, ctx);
	vp::with_root<Cfg, int, D>(r, [&](auto& root, Model m, int const* base, long N) {
		Fin fin{const_cast<int*>(base), N, ctx, in};
		vp::Interp<Fin, Cfg::based, 4> interp(in, ctx, fin);
		interp.null_root = (N == 0);
		vp::check_shape(root, m, "construction");
		interp.step(root, m);
	});
}
}  // namespace

struct Prop {
	static constexpr char const* id = "C20";
	static constexpr int H = 13, R = 4, MAXOPS = 5;
	static void run(Input const& in, Ctx& ctx) {
		ctx.desc << "[negative] ";
		if((in.head(12) & 1U) != 0) {  // roots whose valid indices do not start at zero (and reindexed / blocked among the operations): "below the first index" is not "negative"
			ctx.desc << "(re-based) "; ctx.label("rebased_root");
			switch(in.head(1) % 3) {
				case 0: run_d<1, vp::CfgBased>(in, ctx); break;
				case 1: run_d<2, vp::CfgBased>(in, ctx); break;
				default: run_d<3, vp::CfgBased>(in, ctx); break;
			}
			return;
		}
		switch(in.head(1) % 3) {
			case 0: run_d<1>(in, ctx); break;
			case 1: run_d<2>(in, ctx); break;
			default: run_d<3>(in, ctx); break;
		}
	}
};
VP_MAIN(Prop)
