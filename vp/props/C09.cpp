// C09 — failures (allocation or element exceptions) leave no leak and valid arrays: fault enumeration over C08-style histories
#include "../machine.hpp"

#ifndef VP_C09_MAXK
#define VP_C09_MAXK 12
#endif

namespace {
using CfgEq = vp::MCfg<vp::Tracked, vp::ObsAlloc<vp::Tracked, 8>, 8>;   // always-equal observing allocator
using CfgNe = vp::MCfg<vp::Tracked, vp::ObsAlloc<vp::Tracked, 0>, 0>;   // stateful, non-propagating: slots may hold unequal allocators
// asymmetric element types: nothrow move assignment with a throwing move constructor, and the reverse (a rollback strategy chosen from the wrong trait)
using CfgNeNA = vp::MCfg<vp::TrackedNA, vp::ObsAlloc<vp::TrackedNA, 0>, 0>;
using CfgNeNC = vp::MCfg<vp::TrackedNC, vp::ObsAlloc<vp::TrackedNC, 0>, 0>;
using CfgEqNA = vp::MCfg<vp::TrackedNA, vp::ObsAlloc<vp::TrackedNA, 8>, 8>;
using CfgEqNC = vp::MCfg<vp::TrackedNC, vp::ObsAlloc<vp::TrackedNC, 8>, 8>;
template<class T> char const* tname() { return std::is_same_v<T, vp::TrackedNA> ? "Tracked(nothrow move-assign)" : std::is_same_v<T, vp::TrackedNC> ? "Tracked(nothrow move-ctor)" : "Tracked"; }

// Recorded known findings (known_findings.txt, C09): (operation kind, event kind) pairs at which no fault is injected, so that the search goes on
// behind them.  Lifted in known mode (VP_KNOWN=1) where the committed minimal histories show that each finding is still present.
bool is_ctor(int op) { using namespace vp; return op == O_CTOR_EXT || op == O_CTOR_EXT_VAL || op == O_CTOR_ILIST || op == O_CTOR_ITERS || op == O_CTOR_VIEW || op == O_CTOR_CONVERT || op == O_COPY_CTOR || op == O_COPY_CTOR_ALLOC || op == O_MOVE_CTOR_ALLOC; }
bool veto(int op, unsigned kind) {
	if(vp::known_mode()) { return false; }
	bool const alloc_event = kind == 1;
	(void)op; (void)alloc_event;
	return false;
}

template<class Cfg, int D> void run_d(vp::Input const& in, vp::Ctx& ctx) {
	unsigned const ids = Cfg::flags == 0 ? in.head(0) : 0U;
	// dry run: count the events (allocations, element default/copy/move constructions, element assignments)
	long E = 0;
	{
		vp::obs().reset();
		vp::Ctx dry;
		vp::Machine<Cfg, D> M(dry, ids);
		M.enabled = (vp::kAllOps | (Cfg::stateful ? vp::kAllocOps : 0ULL)) & ~(vp::bit(vp::O_DECAY));  // allocator-extended copy/move construction with stateful allocators
		M.run(in);
		E = vp::obs().events;
		ctx.desc << tname<typename Cfg::T>() << " D=" << D << (Cfg::flags == 0 ? " unequal-allocators ids=" : " equal-allocators") ; if(Cfg::flags == 0) { ctx.desc << (ids & 15U); } ctx.desc << dry.desc.s << " || events=" << E;
	}
	if(E == 0) { return; }
	// injection points: all when few (or in the exhaustive build), else a spread sample
	std::vector<long> ks;
	long const maxk = vp::known_mode() ? 100000 : VP_C09_MAXK;
	if(E <= maxk) { for(long k = 1; k <= E; ++k) { ks.push_back(k); } }
	else { long off = in.head(2) % std::max<long>(1, E / maxk); for(long j = 0; j < maxk; ++j) { ks.push_back(1 + (off + j*E / maxk) % E); } }
	ctx.desc << " faults@";
	int fired = 0;
	for(long k : ks) {
		vp::obs().reset();
		vp::obs().fault_at = k;
		vp::obs().veto = veto;
		vp::Ctx sub;
		try {
			vp::Machine<Cfg, D> M(sub, ids);
			M.enabled = (vp::kAllOps | (Cfg::stateful ? vp::kAllocOps : 0ULL)) & ~(vp::bit(vp::O_DECAY));  // allocator-extended copy/move construction with stateful allocators
			M.run(in);
			if(M.faulted) { ++fired; ctx.nontrivial = true; }
		} catch(vp::Fail const& f) {
			ctx.desc << k << "! (" << sub.desc.s << ")";
			throw vp::Fail{f.key, "with the fault injected at event " + std::to_string(k) + " (" + vp::obs().fault_kind + "): " + f.msg + "\n  history so far:" + sub.desc.s};
		}
		if(vp::obs().vetoed) { ctx.count("injection_points_excluded_known_findings"); ctx.desc << k << "x,"; continue; }
		VP_CHECK(vp::obs().fault_fired, "harness/fault_not_fired", "event " << k << " of " << E << " was never reached in the re-run");
		ctx.desc << k << ',';
	}
	ctx.count("fault_runs", static_cast<long>(ks.size()));
	ctx.count("faults_propagated_to_caller", fired);
	static char const* const dl[] = {"D0", "D1", "D2", "D3"};
	ctx.label(dl[D]);
	if(E > maxk) { ctx.label("sampled_injection_points"); } else { ctx.label("all_injection_points"); }
}
}  // namespace

struct Prop {
	static constexpr char const* id = "C09";
	static constexpr int H = 3, R = 8, MAXOPS = 6;
	static void run(vp::Input const& in, vp::Ctx& ctx) {
		// the top two bits of header byte 2 select an asymmetric element type (values 0 and 1: the ordinary Tracked, every special member may throw)
		unsigned const flavor = in.head(2) >> 6U;
		if(flavor >= 2U) {
			bool const ne = (in.head(1) % 5) >= 3;
			if(flavor == 2U) { if(ne) { run_d<CfgNeNA, 2>(in, ctx); ctx.label("unequal_allocators"); } else { run_d<CfgEqNA, 2>(in, ctx); } ctx.label("T_nothrow_move_assign"); }
			else             { if(ne) { run_d<CfgNeNC, 1>(in, ctx); ctx.label("unequal_allocators"); } else { run_d<CfgEqNC, 2>(in, ctx); } ctx.label("T_nothrow_move_ctor"); }
			return;
		}
		switch(in.head(1) % 5) {
			case 0: run_d<CfgEq, 1>(in, ctx); break;
			case 1: run_d<CfgEq, 2>(in, ctx); break;
			case 2: run_d<CfgEq, 3>(in, ctx); break;
			case 3: run_d<CfgNe, 1>(in, ctx); ctx.label("unequal_allocators"); break;
			default: run_d<CfgNe, 2>(in, ctx); ctx.label("unequal_allocators"); break;
		}
	}
};
VP_MAIN(Prop)
