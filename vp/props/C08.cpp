// C08 — every element is constructed once and destroyed once; storage is returned (instrumented element + observing allocator)
#include "../machine.hpp"

namespace {
template<class T, int D> void run_td(vp::Input const& in, vp::Ctx& ctx) {
	vp::obs().reset();
	ctx.desc << (std::is_same_v<T, vp::Pod> ? "Pod" : std::is_same_v<T, vp::Init> ? "Init" : "Tracked") << " D=" << D;
	{
		vp::Machine<vp::MCfg<T, vp::ObsAlloc<T, 8>, 8>, D> M(ctx, 0);  // is_always_equal: allocator identity is the subject of C10, not of C08
		M.enabled = vp::kAllOps & ~(vp::bit(vp::O_DECAY));
		M.run(in);
		ctx.nontrivial = M.nt && in.nops() >= 3;
	}
	ctx.count("allocations", vp::obs().allocs);
	ctx.count("element_constructions", vp::obs().ctor_default + vp::obs().ctor_value + vp::obs().ctor_copy + vp::obs().ctor_move);
	static char const* const dl[] = {"D0", "D1", "D2", "D3", "D4"};
	ctx.label(dl[D]); ctx.label(std::is_same_v<T, vp::Pod> ? "T_Pod" : std::is_same_v<T, vp::Init> ? "T_Init" : "T_Tracked");
}
}  // namespace

struct Prop {
	static constexpr char const* id = "C08";
	static constexpr int H = 2, R = 8, MAXOPS = 10;
	static void run(vp::Input const& in, vp::Ctx& ctx) {
		using vp::Tracked; using vp::Pod;
		bool tr = (in.head(0) % 3U) != 0;
		if(in.head(0) >= 224U) {  // one case in eight: trivially destructible, not trivially default constructible
			if((in.head(1) & 1U) != 0) { run_td<vp::Init, 2>(in, ctx); } else { run_td<vp::Init, 1>(in, ctx); }
			return;
		}
		switch(in.head(1) % 3) {
			case 0: tr ? run_td<Tracked, 1>(in, ctx) : run_td<Pod, 1>(in, ctx); break;
			case 1: tr ? run_td<Tracked, 2>(in, ctx) : run_td<Pod, 2>(in, ctx); break;
			default: tr ? run_td<Tracked, 3>(in, ctx) : run_td<Pod, 3>(in, ctx); break;
		}
	}
};
VP_MAIN(Prop)
