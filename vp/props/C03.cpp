// C03 — standard algorithms on array/view ranges act as on independent values
#include "../c01.hpp"
#include "../operands.hpp"

#include <algorithm>
#include <numeric>

namespace c03 {
using vp::Model; using vp::Ctx; using vp::Input;
namespace multi = boost::multi;

enum Algo { A_SORT, A_STABLE_SORT, A_PARTIAL_SORT, A_NTH_ELEMENT, A_ROTATE, A_REVERSE, A_PARTITION, A_UNIQUE, A_REMOVE, A_COPY, A_COPY_BACKWARD, A_MOVE, A_SWAP_RANGES, A_FILL,
            A_TRANSFORM, A_FIND, A_EQUAL, A_IS_SORTED, A_ACCUMULATE, A_LEXCMP, NALGOS };
char const* const algo_name[] = {"sort", "stable_sort", "partial_sort", "nth_element", "rotate", "reverse", "partition", "unique", "remove", "copy", "copy_backward", "move", "swap_ranges", "fill",
            "transform", "find", "equal", "is_sorted", "accumulate", "lexicographical_compare"};

using Row = std::vector<int>;
inline int key_of(int x) { return x / 4; }             // comparisons by key only: values with equal keys are distinguishable (stability is observable)
inline int key_of(Row const& r) { return r.empty() ? 0 : r[0] / 4; }
template<class S> int key_of_lib(S const& s) { if constexpr(std::is_arithmetic_v<S>) { return s / 4; } else { return s.num_elements() == 0 ? 0 : static_cast<int>(*s.elements().begin()) / 4; } }

inline bool same(int a, int b) { return a == b; }
template<class S> bool same(S const& s, Row const& r) {  // library row proxy vs model row
	if(static_cast<std::size_t>(s.num_elements()) != r.size()) { return false; }
	std::size_t j = 0; for(auto const& e : s.elements()) { if(e != r[j++]) { return false; } }
	return true;
}

template<class M> bool is_permutation_of(std::vector<M> a, std::vector<M> b) { std::sort(a.begin(), a.end()); std::sort(b.begin(), b.end()); return a == b; }

// runs the algorithm on [first,last) (library) and on `mv` (model, independent values); `second*` is a second range of equal length for the two-range algorithms
template<class It, class M, class It2, class ValueOf>
void run_algo(unsigned algo, It first, It last, std::vector<M>& mv, It2 first2, std::vector<M>& mv2, unsigned p, unsigned q, Ctx& ctx, ValueOf&& value_of,
              std::function<std::vector<M>()> read_back, std::function<std::vector<M>()> read_back2) {
	long const n = static_cast<long>(mv.size());
	VP_CHECK(last - first == n, "algo/range_length", "end-begin=" << (last - first) << " but the view has " << n << " positions");
	auto lcomp = [](auto const& a, auto const& b) { return key_of_lib(a) < key_of_lib(b); };
	auto mcomp = [](M const& a, M const& b) { return key_of(a) < key_of(b); };
	long const mid = n == 0 ? 0 : static_cast<long>(p % static_cast<unsigned>(n + 1));
	int const thr = static_cast<int>(q % 4U);
	auto lpred = [thr](auto const& a) { return key_of_lib(a) < thr; };
	auto mpred = [thr](M const& a) { return key_of(a) < thr; };
	auto const before = mv;
	auto expect_same = [&](char const* what) {
		auto got = read_back();
		VP_CHECK(got == mv, std::string("algo/") + what, what << ": the viewed elements differ from the model sequence after the algorithm");
	};
	switch(algo) {
		case A_SORT: {
			if((q & 8U) != 0) { std::sort(first, last); std::sort(mv.begin(), mv.end()); expect_same("sort"); }
			else { std::sort(first, last, lcomp); auto got = read_back(); VP_CHECK(std::is_sorted(got.begin(), got.end(), mcomp) && is_permutation_of(got, before), "algo/sort", "sort(comp): result is not a sorted permutation of the input"); }
			break;
		}
		case A_STABLE_SORT: { std::stable_sort(first, last, lcomp); std::stable_sort(mv.begin(), mv.end(), mcomp); expect_same("stable_sort"); break; }
		case A_PARTIAL_SORT: {
			std::partial_sort(first, first + mid, last); std::partial_sort(mv.begin(), mv.begin() + mid, mv.end());
			auto got = read_back();
			VP_CHECK(std::equal(got.begin(), got.begin() + mid, mv.begin()) && is_permutation_of(got, before), "algo/partial_sort", "partial_sort: sorted prefix differs or the result is not a permutation");
			break;
		}
		case A_NTH_ELEMENT: {
			if(n == 0) { break; }
			long const nth = mid % n;
			std::nth_element(first, first + nth, last);
			auto got = read_back(); auto sorted = before; std::sort(sorted.begin(), sorted.end());
			bool ok = got[static_cast<std::size_t>(nth)] == sorted[static_cast<std::size_t>(nth)] && is_permutation_of(got, before);
			for(long i = 0; i < nth && ok; ++i) { ok = !(got[static_cast<std::size_t>(nth)] < got[static_cast<std::size_t>(i)]); }
			for(long i = nth + 1; i < n && ok; ++i) { ok = !(got[static_cast<std::size_t>(i)] < got[static_cast<std::size_t>(nth)]); }
			VP_CHECK(ok, "algo/nth_element", "nth_element: post-condition violated at nth=" << nth);
			break;
		}
		case A_ROTATE: {
			auto r = std::rotate(first, first + mid, last); auto mr = std::rotate(mv.begin(), mv.begin() + mid, mv.end());
			VP_CHECK(r - first == mr - mv.begin(), "algo/rotate_position", "rotate returned position " << (r - first) << " model " << (mr - mv.begin()));
			expect_same("rotate"); break;
		}
		case A_REVERSE: { std::reverse(first, last); std::reverse(mv.begin(), mv.end()); expect_same("reverse"); break; }
		case A_PARTITION: {
			auto r = std::partition(first, last, lpred);
			auto got = read_back(); long const cnt = std::count_if(before.begin(), before.end(), mpred);
			VP_CHECK(r - first == cnt, "algo/partition_position", "partition returned position " << (r - first) << " but " << cnt << " elements satisfy the predicate");
			VP_CHECK(std::all_of(got.begin(), got.begin() + cnt, mpred) && std::none_of(got.begin() + cnt, got.end(), mpred) && is_permutation_of(got, before), "algo/partition", "partition: post-condition violated");
			break;
		}
		case A_UNIQUE: {
			auto r = std::unique(first, last); auto mr = std::unique(mv.begin(), mv.end());
			VP_CHECK(r - first == mr - mv.begin(), "algo/unique_position", "unique returned position " << (r - first) << " model " << (mr - mv.begin()));
			auto got = read_back();
			VP_CHECK(std::equal(mv.begin(), mr, got.begin()), "algo/unique", "unique: the kept prefix differs from the model");
			break;
		}
		case A_REMOVE: {
			if(n == 0) { break; }
			auto const& victim = before[static_cast<std::size_t>(mid % n)];
			auto r = std::remove_if(first, last, [&](auto const& a) { return same(a, victim); }); auto mr = std::remove(mv.begin(), mv.end(), victim);
			VP_CHECK(r - first == mr - mv.begin(), "algo/remove_position", "remove returned position " << (r - first) << " model " << (mr - mv.begin()));
			auto got = read_back();
			VP_CHECK(std::equal(mv.begin(), mr, got.begin()), "algo/remove", "remove: the kept prefix differs from the model");
			break;
		}
		case A_COPY: { auto r = std::copy(first, last, first2); VP_CHECK(r - first2 == n, "algo/copy_position", "copy returned position " << (r - first2)); mv2 = mv; VP_CHECK(read_back2() == mv2, "algo/copy", "copy: destination differs from the source sequence"); expect_same("copy_source"); break; }
		case A_COPY_BACKWARD: { auto r = std::copy_backward(first, last, first2 + n); VP_CHECK(r - first2 == 0, "algo/copy_backward_position", "copy_backward returned position " << (r - first2)); mv2 = mv; VP_CHECK(read_back2() == mv2, "algo/copy_backward", "copy_backward: destination differs"); expect_same("copy_backward_source"); break; }
		case A_MOVE: { auto r = std::move(first, last, first2); VP_CHECK(r - first2 == n, "algo/move_position", "move returned position " << (r - first2)); mv2 = mv; VP_CHECK(read_back2() == mv2, "algo/move", "move: destination differs from the source sequence"); break; }
		case A_SWAP_RANGES: { auto r = std::swap_ranges(first, last, first2); VP_CHECK(r - first2 == n, "algo/swap_ranges_position", "swap_ranges returned position " << (r - first2)); std::swap(mv, mv2); expect_same("swap_ranges"); VP_CHECK(read_back2() == mv2, "algo/swap_ranges", "swap_ranges: second range differs"); break; }
		case A_FILL: {
			if(n == 0) { break; }
			M const val = before[static_cast<std::size_t>(mid % n)];
			std::fill(first, last, value_of(val)); std::fill(mv.begin(), mv.end(), val); expect_same("fill"); break;
		}
		case A_TRANSFORM: {
			if(n == 0) { break; }
			M const val = before[static_cast<std::size_t>(mid % n)];
			// element-wise: replace every element whose key is below the threshold by `val`, keep the others
			std::transform(first, last, first2, [&](auto const& a) -> decltype(value_of(val)) { if(lpred(a)) { return value_of(val); } return value_of(mv[0] == mv[0] ? before[0] : val); });
			for(long i = 0; i < n; ++i) { mv2[static_cast<std::size_t>(i)] = mpred(before[static_cast<std::size_t>(i)]) ? val : before[0]; }
			VP_CHECK(read_back2() == mv2, "algo/transform", "transform: destination differs from the model"); expect_same("transform_source"); break;
		}
		case A_FIND: {
			if(n == 0) { break; }
			auto const& target = before[static_cast<std::size_t>(mid % n)];
			auto r = std::find_if(first, last, [&](auto const& a) { return same(a, target); }); auto mr = std::find(mv.begin(), mv.end(), target);
			VP_CHECK(r - first == mr - mv.begin(), "algo/find", "find returned position " << (r - first) << " model " << (mr - mv.begin()));
			break;
		}
		case A_EQUAL: {
			bool r = std::equal(first, last, first2, [](auto const& a, auto const& b) { return a == b; }); bool mr = mv == mv2;
			VP_CHECK(r == mr, "algo/equal", "equal returned " << r << " model " << mr); break;
		}
		case A_IS_SORTED: { bool r = std::is_sorted(first, last); bool mr = std::is_sorted(mv.begin(), mv.end()); VP_CHECK(r == mr, "algo/is_sorted", "is_sorted returned " << r << " model " << mr); break; }
		case A_ACCUMULATE: {
			long r = std::accumulate(first, last, 0L, [](long acc, auto const& a) { return (acc*3 + key_of_lib(a)) % 1000003; }); long mr = std::accumulate(mv.begin(), mv.end(), 0L, [](long acc, M const& a) { return (acc*3 + key_of(a)) % 1000003; });
			VP_CHECK(r == mr, "algo/accumulate", "accumulate returned " << r << " model " << mr); break;
		}
		case A_LEXCMP: {
			bool r = std::lexicographical_compare(first, last, first2, first2 + n); bool mr = std::lexicographical_compare(mv.begin(), mv.end(), mv2.begin(), mv2.end());
			VP_CHECK(r == mr, "algo/lexicographical_compare", "lexicographical_compare returned " << r << " model " << mr); break;
		}
		default: break;
	}
	(void)ctx;
}

template<int D, class W, std::size_t... I>
decltype(auto) c03_rebased(W& w0, Model const& m, std::index_sequence<I...> /*unused*/) { return w0.reindexed(static_cast<multi::index>(m.d[I].first)...); }

template<class Cfg>
struct Fin {
	int* root; long N; Ctx& ctx; Input const& in;
	static constexpr bool Fancy = !std::is_same_v<typename Cfg::template ptr<int>, int*>;

	template<class V, class I>
	void operator()(V& v, Model& m, I& /*interp*/) {
		constexpr int D = vp::rank_of<V>;
		ctx.desc << " => "; m.print(ctx.desc);
		if constexpr(std::is_const_v<V> || vp::is_csub<V>::value) { ctx.count("view_not_mutable"); return; }
		else if constexpr(vp::is_owning<V>::value) { auto&& vv = v(); go<D>(vv, m); }
		else { go<D>(v, m); }
	}

	template<int D, class V>
	void go(V& v, Model const& m) {
		unsigned const algo = in.head(10) % NALGOS;
		bool use_elements = (in.head(11) & 1U) != 0 || D > 3;
		// over fancy pointers proxy-row ranges are not exercised: the value_type of such an iterator is an array over the pointer's default_allocator_type (std::allocator for the
		// harness' pointers), and ordering operators between operands of different pointer families are not offered by the library, so sort & co. do not instantiate
		if constexpr(Fancy) { if(D >= 2) { use_elements = true; } }
		unsigned const p = in.head(12), q = in.head(13);
		long const nel = m.nelems();
		if(nel == 0 && !m.d.empty() && m.d[0].size != 0) { ctx.count("zero_element_view_with_rows_skipped"); return; }
		std::vector<int> const before(root, root + N);
		std::vector<long> pos; if(nel > 0) { long ord[D] = {}; do { pos.push_back(m.pos(ord)); } while(vp::next_ord(m, ord)); }
		ctx.desc << " ; " << algo_name[algo] << (use_elements ? " on elements()" : " on begin()/end()");
		// second range of equal shape, different layout
		vp::ops::Val sec; sec.ext.resize(static_cast<std::size_t>(D)); for(int k = 0; k < D; ++k) { sec.ext[static_cast<std::size_t>(k)] = m.d[static_cast<std::size_t>(k)].size; }
		sec.v.resize(static_cast<std::size_t>(nel)); for(long j = 0; j < nel; ++j) { sec.v[static_cast<std::size_t>(j)] = static_cast<int>((j*5 + q) % 16U); }
		int const kind = 2 + static_cast<int>((in.head(14) % 5U));  // K_VIEW .. K_STRIDED
		auto with_second = [&](auto&& body0) {
			// on re-based roots the second range is given the first range's index bases (rows of different extensions cannot be assigned or swapped)
			auto body = [&](auto& w0) { if constexpr(Cfg::based) { auto&& wb = c03_rebased<D>(w0, m, std::make_index_sequence<static_cast<std::size_t>(D)>{}); body0(wb); } else { body0(w0); } };  // over a fancy-pointer configuration the second range lives in storage of the same family (bit set) or over raw pointers
			if constexpr(Fancy) { if((in.head(11) & 4U) != 0) { ctx.label("second_range_same_pointer_family"); vp::ops::with_operand_a<D, int, true, Cfg::template alloc>(sec, kind, body); return; } ctx.label("second_range_raw_pointer"); }
			vp::ops::with_operand<D, int, true>(sec, kind, body);
		};
		with_second([&](auto& w) {
			if(use_elements || D == 1) {
				std::vector<int> mv(static_cast<std::size_t>(nel)); for(long j = 0; j < nel; ++j) { mv[static_cast<std::size_t>(j)] = before[static_cast<std::size_t>(pos[static_cast<std::size_t>(j)])]; }
				std::vector<int> mv2 = sec.v;
				auto rb = [&]() { std::vector<int> r; for(long j = 0; j < nel; ++j) { r.push_back(root[pos[static_cast<std::size_t>(j)]]); } return r; };
				auto rb2 = [&]() { std::vector<int> r; for(auto const& e : w.elements()) { r.push_back(e); } return r; };
				auto ident = [](int x) { return x; };
				if(use_elements) { auto&& es = v.elements(); auto&& es2 = w.elements(); run_algo<decltype(es.begin()), int>(algo, es.begin(), es.end(), mv, es2.begin(), mv2, p, q, ctx, ident, rb, rb2); }
				else if constexpr(D == 1) { run_algo<decltype(v.begin()), int>(algo, v.begin(), v.end(), mv, w.begin(), mv2, p, q, ctx, ident, rb, rb2); }
			} else if constexpr((D == 2 || D == 3) && !Fancy) {  // proxy rows: sub-views of rank D-1, modelled by their flattened canonical element sequence
				long const rows = m.d[0].size, cols = rows == 0 ? 0 : nel / rows;
				std::vector<Row> mv(static_cast<std::size_t>(rows)), mv2(static_cast<std::size_t>(rows));
				for(long i = 0; i < rows; ++i) { for(long j = 0; j < cols; ++j) { mv[static_cast<std::size_t>(i)].push_back(before[static_cast<std::size_t>(pos[static_cast<std::size_t>(i*cols + j)])]); mv2[static_cast<std::size_t>(i)].push_back(sec.v[static_cast<std::size_t>(i*cols + j)]); } }
				auto rb = [&]() { std::vector<Row> r(static_cast<std::size_t>(rows)); for(long i = 0; i < rows; ++i) { for(long j = 0; j < cols; ++j) { r[static_cast<std::size_t>(i)].push_back(root[pos[static_cast<std::size_t>(i*cols + j)]]); } } return r; };
				auto rb2 = [&]() { std::vector<Row> r(static_cast<std::size_t>(rows)); long k = 0; for(auto const& e : w.elements()) { r[static_cast<std::size_t>(k / std::max<long>(cols, 1))].push_back(e); ++k; } return r; };
				std::vector<long> sube, subf; for(int k = 1; k < D; ++k) { sube.push_back(m.d[static_cast<std::size_t>(k)].size); subf.push_back(m.d[static_cast<std::size_t>(k)].first); }
				auto to_array = [&](Row const& r) { multi::array<int, D - 1, typename Cfg::template alloc<int>> a(vp::ops::make_ext<D - 1>(sube.data())); if constexpr(Cfg::based) { if constexpr(D == 2) { a.reindex(static_cast<multi::index>(subf[0])); } else { a.reindex(static_cast<multi::index>(subf[0]), static_cast<multi::index>(subf[1])); } } std::copy(r.begin(), r.end(), a.elements().begin()); return a; };
				run_algo<decltype(v.begin()), Row>(algo, v.begin(), v.end(), mv, w.begin(), mv2, p, q, ctx, to_array, rb, rb2);
			}
		});
		// elements outside the view are untouched; inside: a permutation is not required for fill/copy-into, so only the complement is checked here
		std::vector<char> inside(static_cast<std::size_t>(N), 0); for(long x : pos) { inside[static_cast<std::size_t>(x)] = 1; }
		for(long i = 0; i < N; ++i) { if(inside[static_cast<std::size_t>(i)] == 0) { VP_CHECK(root[i] == before[static_cast<std::size_t>(i)], "algo/outside_modified", "root element " << i << " outside the view changed from " << before[static_cast<std::size_t>(i)] << " to " << root[i]); } }
		bool dup = false; { std::vector<int> vals; for(long x : pos) { vals.push_back(before[static_cast<std::size_t>(x)]); } std::sort(vals.begin(), vals.end()); dup = std::adjacent_find(vals.begin(), vals.end()) != vals.end(); }
		long const len = use_elements || D == 1 ? nel : m.d[0].size;
		ctx.nontrivial = len >= 3 && dup && (!m.compact_rowmajor() || (D > 1 && !use_elements));
		ctx.label(algo_name[algo]); ctx.label(use_elements ? "range_elements" : (D == 1 ? "range_1d" : "range_proxy_rows"));
	}
};

template<int D, class Cfg = vp::CfgRaw>
void run_d(Input const& in, Ctx& ctx) {
	auto r = vp::decode_root<D, Cfg::based>(in, ctx);
	r.kind = (r.kind % 3 == 0) ? vp::RK_ARRAY : (r.kind % 3 == 1 ? vp::RK_STATIC : vp::RK_REF);
	vp::with_root<Cfg, int, D, true>(r, [&](auto& root, Model m, int const* base, long N) {
		auto* wbase = const_cast<int*>(base);
		unsigned s = in.head(9);
		for(long i = 0; i < N; ++i) { s = s*1103515245U + 12345U; wbase[i] = static_cast<int>((s >> 16U) % 16U); }  // small alphabet: 4 keys x 4 tags, duplicates are the point
		Fin<Cfg> fin{wbase, N, ctx, in};
		vp::Interp<Fin<Cfg>, Cfg::based, 3, false, true> interp(in, ctx, fin);
		interp.null_root = (N == 0); interp.no_const = true;
		vp::check_shape(root, m, "construction");
		interp.step(root, m);
	});
}
}  // namespace c03

#ifndef VP_C03_NO_MAIN
using namespace c03;
struct Prop {
	static constexpr char const* id = "C03";
	static constexpr int H = 15, R = 4, MAXOPS = 5;
	static void run(Input const& in, Ctx& ctx) {
		switch(in.head(1) % 3) {
			case 0: run_d<1>(in, ctx); break;
			case 1: run_d<2>(in, ctx); break;
			default: run_d<3>(in, ctx); break;
		}
	}
};
VP_MAIN(Prop)
#endif
