// C14 — LAPACK adaptor factorizations reconstruct their input for every accepted view
// one harness per routine (the adaptor headers cannot be included together): -DVP_C14_R=0 potrf, 1 geqrf, 2 gesvd
#include "../core.hpp"

#include <boost/multi/array.hpp>

#ifndef VP_C14_R
#define VP_C14_R 0
#endif

#if VP_C14_R == 0
#include <boost/multi/adaptors/lapack/potrf.hpp>
#elif VP_C14_R == 1
#include <boost/multi/adaptors/lapack/geqrf.hpp>
#else
#include <boost/multi/adaptors/lapack/gesvd.hpp>
#endif

#include <cmath>
#include <complex>

namespace {
namespace multi = boost::multi;
using vp::Ctx; using vp::Input;
constexpr double kSent = 777.0;

struct Dec {
	Input const& in; int h = 1;
	unsigned u8() { return in.head(h++); }
	long size() { return 1 + static_cast<long>(u8() % 6U); }
	double small(unsigned& s) { s = s*1103515245U + 12345U; return static_cast<double>(static_cast<int>((s >> 16U) % 7U) - 3); }
};

// a (possibly padded) r x c block inside a parent filled with the sentinel; row-major with row pitch >= c
struct Block {
	multi::array<double, 2> P; long r, c, o1, o2;
	Block(long r_, long c_, unsigned pad) : r(r_), c(c_), o1((pad & 1U) ? 1 : 0), o2((pad & 2U) ? 1 : 0) { P = multi::array<double, 2>({r + ((pad & 1U) ? 2 : 0), c + ((pad & 2U) ? 2 : 0)}, kSent); }
	double& at(long i, long j) { return P[o1 + i][o2 + j]; }
	auto view() { return P({o1, o1 + r}, {o2, o2 + c}); }
	bool padding_intact() { auto const [n1, n2] = P.sizes(); for(long i = 0; i < n1; ++i) { for(long j = 0; j < n2; ++j) { bool inside = i >= o1 && i < o1 + r && j >= o2 && j < o2 + c; if(!inside && P[i][j] != kSent) { return false; } } } return true; }
};

#if VP_C14_R == 0
template<class T> T mk(double re, double im) { if constexpr(std::is_arithmetic_v<T>) { (void)im; return re; } else { return T(re, im); } }
template<class T> T cj(T const& x) { if constexpr(std::is_arithmetic_v<T>) { return x; } else { return std::conj(x); } }
template<class T> double re(T const& x) { if constexpr(std::is_arithmetic_v<T>) { return x; } else { return x.real(); } }

template<class T>
void run_potrf(Input const& in, Ctx& ctx) {
	Dec d{in};
	long const n = d.size();
	bool const upper = (d.u8() & 1U) != 0;     // which triangle of the C++ (row-major) view holds the matrix and receives the factor
	bool const colmajor = (d.u8() & 1U) != 0;  // operate on a column-major view (rotated storage)
	unsigned const pad = d.u8() % 4U;
	long bad = static_cast<long>(d.u8() % 8U);  // plant a non-positive leading minor of this order (1-based); values > n: positive definite
	unsigned seed = d.u8();
	ctx.desc << (std::is_arithmetic_v<T> ? "double" : "complex<double>") << " potrf n=" << n << (upper ? " upper" : " lower") << (colmajor ? " column-major" : " row-major") << " pad=" << pad;
	// A = M M^H + n I  (hermitian positive definite, integer entries)
	std::vector<T> M(static_cast<std::size_t>(n*n)), A(static_cast<std::size_t>(n*n));
	for(auto& e : M) { double a = d.small(seed), b = d.small(seed); e = mk<T>(a, b); }
	for(long i = 0; i < n; ++i) { for(long j = 0; j < n; ++j) { T s = mk<T>(i == j ? static_cast<double>(n) : 0.0, 0.0); for(long l = 0; l < n; ++l) { s += M[static_cast<std::size_t>(i*n + l)]*cj(M[static_cast<std::size_t>(j*n + l)]); } A[static_cast<std::size_t>(i*n + j)] = s; } }
	long expect_order = n;
	if(bad >= 1 && bad <= n) { A[static_cast<std::size_t>((bad - 1)*n + (bad - 1))] = mk<T>(-1000.0, 0.0); expect_order = bad - 1; ctx.desc << " non-positive minor of order " << bad; }
	// storage: the logical matrix L(i,j); only the selected triangle is given, the other holds the sentinel
	multi::array<T, 2> P({n + ((pad & 1U) ? 2 : 0), n + ((pad & 2U) ? 2 : 0)}, mk<T>(kSent, 0.0));
	long const o1 = (pad & 1U) ? 1 : 0, o2 = (pad & 2U) ? 1 : 0;
	auto cell = [&](long i, long j) -> T& { return colmajor ? P[o1 + j][o2 + i] : P[o1 + i][o2 + j]; };
	if(colmajor) { P = multi::array<T, 2>({n + ((pad & 2U) ? 2 : 0), n + ((pad & 1U) ? 2 : 0)}, mk<T>(kSent, 0.0)); }
	auto cellc = [&](long i, long j) -> T& { return colmajor ? P[o2 + j][o1 + i] : P[o1 + i][o2 + j]; };
	(void)cell;
	for(long i = 0; i < n; ++i) { for(long j = 0; j < n; ++j) { if(upper ? j >= i : j <= i) { cellc(i, j) = A[static_cast<std::size_t>(i*n + j)]; } } }
	long order = -1;
	auto fill = upper ? multi::lapack::filling::upper : multi::lapack::filling::lower;
	if(colmajor) { auto&& v = P({o2, o2 + n}, {o1, o1 + n}).rotated(); order = multi::lapack::potrf(fill, v).size(); }
	else { auto&& v = P({o1, o1 + n}, {o2, o2 + n}); order = multi::lapack::potrf(fill, v).size(); }
	VP_CHECK(order == expect_order, "lapack/potrf_order", "returned block has order " << order << ", the first non-positive leading minor is of order " << (expect_order + 1) << " (n=" << n << ")");
	// the factor in the selected triangle of the leading block reproduces the selected triangle of A
	double norm = 0; for(auto const& e : A) { norm = std::max(norm, std::abs(e)); }
	double const tol = 64*std::numeric_limits<double>::epsilon()*static_cast<double>(n)*norm;
	for(long i = 0; i < order; ++i) { for(long j = 0; j < order; ++j) { if(upper ? j >= i : j <= i) {
		T s = mk<T>(0, 0);
		for(long l = 0; l < order; ++l) {
			if(upper) { if(l <= i && l <= j) { s += cj(cellc(l, i))*cellc(l, j); } }  // A = U^H U
			else { if(l <= i && l <= j) { s += cellc(i, l)*cj(cellc(j, l)); } }        // A = L L^H
		}
		VP_CHECK(std::abs(s - A[static_cast<std::size_t>(i*n + j)]) <= tol, "lapack/potrf_reconstruction", "the factor does not reproduce A(" << i << ',' << j << "): got " << s << " expected " << A[static_cast<std::size_t>(i*n + j)]);
	} } }
	// the other triangle and the padding are untouched
	for(long i = 0; i < n; ++i) { for(long j = 0; j < n; ++j) { if(!(upper ? j >= i : j <= i)) { VP_CHECK(cellc(i, j) == mk<T>(kSent, 0.0), "lapack/potrf_other_triangle", "element (" << i << ',' << j << ") of the triangle that was not selected was overwritten"); } } }
	{ auto const [n1, n2] = P.sizes(); long a1 = colmajor ? o2 : o1, a2 = colmajor ? o1 : o2;
	  for(long i = 0; i < n1; ++i) { for(long j = 0; j < n2; ++j) { bool inside = i >= a1 && i < a1 + n && j >= a2 && j < a2 + n; if(!inside) { VP_CHECK(P[i][j] == mk<T>(kSent, 0.0), "lapack/potrf_padding", "wrote outside the view at parent (" << i << ',' << j << ")"); } } } }
	ctx.nontrivial = n >= 2 && (colmajor || pad != 0 || expect_order < n);
	ctx.label(expect_order < n ? "not_positive_definite" : "positive_definite"); ctx.label(colmajor ? "column_major" : "row_major");
}
#endif

#if VP_C14_R == 1
void run_geqrf(Input const& in, Ctx& ctx) {
	Dec d{in};
	long m = d.size(), n = d.size();
	{ // now and then a very tall or very wide matrix (LAPACK's blocked code paths and workspace sizes depend on the aspect ratio)
		static constexpr long kLong[4] = {40, 70, 100, 170};
		unsigned const shape = d.u8();
		if(shape % 8U == 0) { n = 1 + static_cast<long>((shape >> 3U) % 3U); m = kLong[(shape >> 5U) % 4U]; }
		else if(shape % 8U == 1) { m = 1 + static_cast<long>((shape >> 3U) % 3U); n = kLong[(shape >> 5U) % 4U]; }
	}
	unsigned const pad = d.u8() % 4U; unsigned seed = d.u8();
	ctx.desc << "geqrf " << m << 'x' << n << " pad=" << pad;
	Block A(m, n, pad);
	std::vector<double> A0(static_cast<std::size_t>(m*n));
	for(long i = 0; i < m; ++i) { for(long j = 0; j < n; ++j) { A.at(i, j) = A0[static_cast<std::size_t>(i*n + j)] = d.small(seed) + (i == j ? 5.0 : 0.0); } }
	long const k = std::min(m, n);
	multi::array<double, 1> tau(multi::extensions_t<1>{k}, kSent);
	{ auto&& v = A.view(); multi::lapack::geqrf(v, tau); }
	VP_CHECK(A.padding_intact(), "lapack/geqrf_padding", "geqrf wrote outside the view");
	// the adaptor hands LAPACK the Fortran view of the row-major array: F = A^T is n x m (column-major), F = Q R
	long const fr = n, fc = m;
	auto F = [&](long i, long j) -> double { return A.at(j, i); };
	std::vector<double> QR(static_cast<std::size_t>(fr*fc), 0.0);  // start with R, apply H_1 ... H_k from the right end: Q R = H_1 (H_2 (... (H_k R)))
	for(long i = 0; i < fr; ++i) { for(long j = 0; j < fc; ++j) { QR[static_cast<std::size_t>(i*fc + j)] = (i <= j) ? F(i, j) : 0.0; } }
	for(long r = k - 1; r >= 0; --r) {
		std::vector<double> v(static_cast<std::size_t>(fr), 0.0); v[static_cast<std::size_t>(r)] = 1.0; for(long i = r + 1; i < fr; ++i) { v[static_cast<std::size_t>(i)] = F(i, r); }
		for(long j = 0; j < fc; ++j) { double dot = 0; for(long i = 0; i < fr; ++i) { dot += v[static_cast<std::size_t>(i)]*QR[static_cast<std::size_t>(i*fc + j)]; } for(long i = 0; i < fr; ++i) { QR[static_cast<std::size_t>(i*fc + j)] -= tau[r]*v[static_cast<std::size_t>(i)]*dot; } }
	}
	double norm = 0; for(double e : A0) { norm = std::max(norm, std::abs(e)); }
	double const tol = 256*std::numeric_limits<double>::epsilon()*static_cast<double>(std::max(m, n))*norm;
	for(long i = 0; i < fr; ++i) { for(long j = 0; j < fc; ++j) { VP_CHECK(std::abs(QR[static_cast<std::size_t>(i*fc + j)] - A0[static_cast<std::size_t>(j*n + i)]) <= tol, "lapack/geqrf_reconstruction", "Q R differs from the input at Fortran (" << i << ',' << j << "): " << QR[static_cast<std::size_t>(i*fc + j)] << " vs " << A0[static_cast<std::size_t>(j*n + i)]); } }
	ctx.nontrivial = m >= 2 && n >= 2 && (pad != 0 || m != n);
	ctx.label(pad != 0 ? "padded" : "contiguous"); ctx.label(m == n ? "square" : (m > 32*n || n > 32*m) ? "very_elongated" : "rectangular");
}
#endif

#if VP_C14_R == 2
void run_gesvd(Input const& in, Ctx& ctx) {
	Dec d{in};
	long const m = d.size(), n = d.size();
	unsigned const pad = d.u8() % 4U, padu = d.u8() % 4U, padv = d.u8() % 4U; unsigned seed = d.u8();
	unsigned const fb = d.u8(); bool const functional = (fb & 1U) != 0; unsigned const argkind = (fb >> 1U) % 3U;  // const array / named mutable array / temporary
	static char const* const ak[] = {"const array", "mutable lvalue array", "temporary array"};
	ctx.desc << "gesvd " << m << 'x' << n << " padA=" << pad << " padU=" << padu << " padVT=" << padv << (functional ? " gesvd(A) -> tuple, A a " : " gesvd(A, U, s, VT)") << (functional ? ak[argkind] : "");
	Block A(m, n, pad), U(m, m, padu), VT(n, n, padv);
	std::vector<double> A0(static_cast<std::size_t>(m*n));
	for(long i = 0; i < m; ++i) { for(long j = 0; j < n; ++j) { A.at(i, j) = A0[static_cast<std::size_t>(i*n + j)] = d.small(seed) + (i == j ? 4.0 : 0.0); } }
	long const k = std::min(m, n);
	multi::array<double, 1> s(multi::extensions_t<1>{k}, kSent);
	auto getU = [&](long i, long j) { return U.at(i, j); }; auto getV = [&](long i, long j) { return VT.at(i, j); };
	if(functional) {
		multi::array<double, 2> const Aarr{A.view()};  // the functional form copies its argument with `auto copy = AA`, which needs an owning array
		multi::array<double, 2> Amut{A.view()};
		// the one-argument form returns the factors of a *copy*: whatever the value category of the argument, a named argument keeps its contents
		auto const [UU, ss, VV] = argkind == 0 ? multi::lapack::gesvd(Aarr) : argkind == 1 ? multi::lapack::gesvd(Amut) : multi::lapack::gesvd(multi::array<double, 2>{A.view()});
		for(long i = 0; i < m; ++i) { for(long j = 0; j < n; ++j) { VP_CHECK(Amut[i][j] == A0[static_cast<std::size_t>(i*n + j)], "lapack/gesvd_input_modified", "gesvd(A) modified its (named, non-const) argument at (" << i << ',' << j << ")"); } }
		for(long i = 0; i < m; ++i) { for(long j = 0; j < n; ++j) { VP_CHECK(Aarr[i][j] == A0[static_cast<std::size_t>(i*n + j)], "lapack/gesvd_input_modified", "gesvd(A) modified its const input"); } }
		for(long i = 0; i < m; ++i) { for(long j = 0; j < n; ++j) { VP_CHECK(A.at(i, j) == A0[static_cast<std::size_t>(i*n + j)], "lapack/gesvd_input_modified", "gesvd(A) modified its const input"); } }
		VP_CHECK(UU.size() == m && VV.size() == n && ss.size() == k, "lapack/gesvd_shapes", "result shapes");
		for(long i = 0; i < m; ++i) { for(long j = 0; j < m; ++j) { U.at(i, j) = UU[i][j]; } } for(long i = 0; i < n; ++i) { for(long j = 0; j < n; ++j) { VT.at(i, j) = VV[i][j]; } } for(long i = 0; i < k; ++i) { s[i] = ss[i]; }
	} else {
		auto&& av = A.view(); auto&& uv = U.view(); auto&& vv = VT.view();
		multi::lapack::gesvd(av, uv, s, vv);
	}
	VP_CHECK(A.padding_intact() && U.padding_intact() && VT.padding_intact(), "lapack/gesvd_padding", "gesvd wrote outside a view");
	double norm = 0; for(double e : A0) { norm = std::max(norm, std::abs(e)); }
	double const tol = 512*std::numeric_limits<double>::epsilon()*static_cast<double>(std::max(m, n))*norm;
	for(long i = 0; i < k; ++i) { VP_CHECK(s[i] >= 0 && (i == 0 || s[i] <= s[i - 1]*(1 + 1e-14)), "lapack/gesvd_order", "singular values are not non-negative and descending at " << i); }
	auto orth = [&](auto get, long q, char const* name) { for(long i = 0; i < q; ++i) { for(long j = 0; j < q; ++j) { double dot = 0; for(long l = 0; l < q; ++l) { dot += get(i, l)*get(j, l); } VP_CHECK(std::abs(dot - (i == j ? 1.0 : 0.0)) <= 1e-12*static_cast<double>(q), "lapack/gesvd_orthogonality", name << " is not orthogonal at (" << i << ',' << j << ")"); } } };
	orth(getU, m, "U"); orth(getV, n, "VT");
	// A = U diag(s) VT  (the fourth argument holds V transposed: its template parameter is named VTArray2D)
	for(long i = 0; i < m; ++i) { for(long j = 0; j < n; ++j) { double r = 0; for(long l = 0; l < k; ++l) { r += getU(i, l)*s[l]*getV(l, j); } VP_CHECK(std::abs(r - A0[static_cast<std::size_t>(i*n + j)]) <= tol, "lapack/gesvd_reconstruction", "U diag(s) VT differs from the input at (" << i << ',' << j << "): " << r << " vs " << A0[static_cast<std::size_t>(i*n + j)]); } }
	ctx.nontrivial = m >= 2 && n >= 2 && (pad + padu + padv != 0 || m != n);
	ctx.label((pad + padu + padv) != 0 ? "padded" : "contiguous"); ctx.label(m == n ? "square" : "rectangular");
}
#endif
}  // namespace

struct Prop {
	static constexpr char const* id = "C14";
	static constexpr int H = 12, R = 1, MAXOPS = 0;
	static void run(Input const& in, Ctx& ctx) {
#if VP_C14_R == 0
		if((in.head(0) & 1U) != 0) { run_potrf<std::complex<double>>(in, ctx); } else { run_potrf<double>(in, ctx); }
#elif VP_C14_R == 1
		run_geqrf(in, ctx);
#else
		run_gesvd(in, ctx);
#endif
	}
};
VP_MAIN(Prop)
