// C19 — index bases are transparent: the C01 / C02 programs on re-based roots (extensions starting at -3..3, reindexed, blocked)
#include "../c02.hpp"

struct Prop {
	static constexpr char const* id = "C19";
	static constexpr int H = 13, R = 4, MAXOPS = 10;
	static void run(vp::Input const& in, vp::Ctx& ctx) {
		if((in.head(12) & 1U) == 0) { ctx.desc << "[C01-program] "; vp::run_c01<vp::CfgBased>(in, ctx); ctx.label("program_C01"); }
		else { ctx.desc << "[C02-program] "; vp::run_c02<vp::CfgBased>(in, ctx); ctx.label("program_C02"); }
	}
};
VP_MAIN(Prop)
