// C19 — index bases are transparent: the C01 / C02 programs on re-based roots (extensions starting at -3..3, reindexed, blocked)
#include "../c02.hpp"
#include "../c06based.hpp"
#include "../c05.hpp"
#define VP_C03_NO_MAIN
#include "C03.cpp"

using vp::based::run_c06_based;


struct Prop {
	static constexpr char const* id = "C19";
	static constexpr int H = 13, R = 4, MAXOPS = 10;
	static void run(vp::Input const& in, vp::Ctx& ctx) {
		if((in.head(12) % 11U) == 10) {  // standard algorithms on rows / elements of re-based views (the C03 program; its own header bytes 13, 14 are read as zero here)
			ctx.desc << "[C03-program] ";
			switch(in.head(1) % 3) { case 0: c03::run_d<1, vp::CfgBased>(in, ctx); break; case 1: c03::run_d<2, vp::CfgBased>(in, ctx); break; default: c03::run_d<3, vp::CfgBased>(in, ctx); break; }
			ctx.label("program_C03"); return;
		}
		if((in.head(12) % 5U) == 4) { ctx.desc << "[C05-program] "; vp::c05::run_c05<vp::CfgBased>(in, ctx); ctx.label("program_C05"); return; }
		if((in.head(12) % 4U) == 3) { ctx.desc << "[C06-program] "; bool const pmr = (in.head(1) & 2U) != 0; if((in.head(1) & 1U) != 0) { if(pmr) { run_c06_based<2, true>(in, ctx); } else { run_c06_based<2>(in, ctx); } } else { if(pmr) { run_c06_based<1, true>(in, ctx); } else { run_c06_based<1>(in, ctx); } } return; }
		if((in.head(12) & 1U) == 0) { ctx.desc << "[C01-program] "; vp::run_c01<vp::CfgBased>(in, ctx); ctx.label("program_C01"); }
		else { ctx.desc << "[C02-program] "; vp::run_c02<vp::CfgBased>(in, ctx); ctx.label("program_C02"); }
	}
};
VP_MAIN(Prop)
