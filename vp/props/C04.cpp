// C04 — owning arrays have value semantics (copy, move, assign, swap, decay): stateful, model-based
#include "../machine.hpp"

namespace {
template<class T, int D> void run_td(vp::Input const& in, vp::Ctx& ctx) {
	vp::obs().reset();
	ctx.desc << (std::is_same_v<T, int> ? "int" : "Tracked") << " D=" << D;
	vp::Machine<vp::MCfg<T, std::allocator<T>>, D> M(ctx);
	M.enabled = vp::kValueOps;
	M.run(in);
	ctx.nontrivial = M.nt && in.nops() >= 2;
	static char const* const dl[] = {"D0", "D1", "D2", "D3", "D4"};
	ctx.label(dl[D]); ctx.label(std::is_same_v<T, int> ? "T_int" : "T_Tracked");
}
// dimensionality 0: an array of exactly one element.  Copies are deep, assignment never rebinds, every array keeps its own storage; the forms that
// instantiate on this tree are exercised (construction from a value, default construction, copy / move construction and assignment, swap, assignment of an
// element value, assignment from an array of convertible element type, self-assignment).  Default and copy construction did not compile in assertion-enabled
// builds on the pinned tree (repaired in /repo, see known_findings.txt).
template<class T> void run_d0(vp::Input const& in, vp::Ctx& ctx) {
	namespace multi = boost::multi;
	vp::obs().reset();
	ctx.desc << (std::is_same_v<T, int> ? "int" : "Tracked") << " D=0";
	{
		using Arr = multi::array<T, 0>;
		std::unique_ptr<Arr> slot[4]; int model[4];
		for(int i = 0; i < 4; ++i) { slot[i] = std::make_unique<Arr>(T(i)); model[i] = i; }
		auto value = [](Arr const& a) { return vp::val(static_cast<T const&>(a)); };
		bool nt = false;
		for(int r = 0; r < in.nops(); ++r) {
			unsigned const op = in.op(r, 0) % 10U; int const a = in.op(r, 1) % 4; int b = in.op(r, 2) % 4; int const v = 10 + in.op(r, 3) % 50;
			if(b == a) { b = (a + 1) % 4; }
			static char const* const nm[] = {"ctor(value)", "default-ctor; = value", "copy-ctor", "copy-assign", "move-ctor", "move-assign", "swap", "= value", "assign-convertible", "self-assign"};
			ctx.desc << " | " << nm[op] << ' ' << a;
			switch(op) {
				case 0: ctx.desc << '(' << v << ')'; slot[a] = std::make_unique<Arr>(T(v)); model[a] = v; break;
				case 1: { ctx.desc << '(' << v << ')'; auto p = std::make_unique<Arr>(); *p = T(v); slot[a] = std::move(p); model[a] = v; break; }
				case 2: ctx.desc << " <- " << b; slot[a] = std::make_unique<Arr>(*slot[b]); model[a] = model[b]; nt = true; break;
				case 3: ctx.desc << " <- " << b; *slot[a] = *slot[b]; model[a] = model[b]; nt = true; break;
				case 4: { ctx.desc << " <- " << b; slot[a] = std::make_unique<Arr>(std::move(*slot[b])); model[a] = model[b]; model[b] = value(*slot[b]); break; }  // the source stays valid; its value is unspecified: re-read
				case 5: { ctx.desc << " <- " << b; *slot[a] = std::move(*slot[b]); model[a] = model[b]; model[b] = value(*slot[b]); break; }
				case 6: { ctx.desc << " <-> " << b; using std::swap; swap(*slot[a], *slot[b]); std::swap(model[a], model[b]); break; }
				case 7: ctx.desc << '(' << v << ')'; *slot[a] = T(v); model[a] = v; break;
				case 8: if constexpr(std::is_same_v<T, int>) { ctx.desc << '(' << v << ')'; multi::array<long, 0> L(static_cast<long>(v)); *slot[a] = L; model[a] = v; } break;
				default: { auto const* before = slot[a]->base(); auto& self = *slot[a]; *slot[a] = self; VP_CHECK(slot[a]->base() == before, "value/self_assign", "self-assignment of a 0-D array rebound it"); break; }
			}
			VP_CHECK(vp::obs().errors.empty(), "lifetime/error", "after " << nm[op] << ": " << vp::obs().errors.front());
			for(int i = 0; i < 4; ++i) {
				Arr const& A = *slot[i];
				VP_CHECK(A.num_elements() == 1 && A.base() != nullptr, "value/num_elements", "0-D slot " << i << " after " << nm[op] << ": num_elements()=" << A.num_elements());
				VP_CHECK(value(A) == model[i] && vp::val(*A.base()) == model[i] && vp::val(*A.data_elements()) == model[i], "value/elements", "0-D slot " << i << " after " << nm[op] << " holds " << value(A) << ", model " << model[i]);
				for(int j = 0; j < i; ++j) {
					VP_CHECK(A.base() != slot[j]->base(), "value/aliasing", "0-D slots " << j << " and " << i << " share storage after " << nm[op]);
					bool const eq = model[i] == model[j];
					VP_CHECK((A == *slot[j]) == eq && (A != *slot[j]) == !eq, "value/equality", "0-D slots " << j << " and " << i << ": == is " << (A == *slot[j]) << ", model " << eq);
				}
			}
		}
		ctx.nontrivial = nt && in.nops() >= 2;
	}
	VP_CHECK(vp::obs().errors.empty() && vp::obs().alive.empty(), "lifetime/error", "at the end: " << (vp::obs().errors.empty() ? std::to_string(vp::obs().alive.size()) + " element(s) still alive" : vp::obs().errors.front()));
	ctx.label("D0"); ctx.label(std::is_same_v<T, int> ? "T_int" : "T_Tracked");
}
}  // namespace

struct Prop {
	static constexpr char const* id = "C04";
	static constexpr int H = 2, R = 8, MAXOPS = 10;
	static void run(vp::Input const& in, vp::Ctx& ctx) {
		using vp::Tracked;
		bool tr = (in.head(0) & 1U) != 0;
		if(((in.head(0) >> 2U) % 8U) == 7U) { if(tr) { run_d0<Tracked>(in, ctx); } else { run_d0<int>(in, ctx); } return; }  // one case in eight: 0-D arrays
		switch(in.head(1) % 4) {
			case 0: tr ? run_td<Tracked, 1>(in, ctx) : run_td<int, 1>(in, ctx); break;
			case 1: tr ? run_td<Tracked, 2>(in, ctx) : run_td<int, 2>(in, ctx); break;
			case 2: tr ? run_td<Tracked, 3>(in, ctx) : run_td<int, 3>(in, ctx); break;
			default: tr ? run_td<Tracked, 4>(in, ctx) : run_td<int, 4>(in, ctx); break;
		}
	}
};
VP_MAIN(Prop)
