// C04 — owning arrays have value semantics (copy, move, assign, swap, decay): stateful, model-based
#include "../views.hpp"
#include "../instr.hpp"

#include <memory>

namespace {

using vp::Model; using vp::Ctx; using vp::Input; using vp::Tracked;
namespace multi = boost::multi;

inline int val(int x) { return x; }
inline int val(long x) { return static_cast<int>(x); }
inline int val(Tracked const& x) { return x.v; }

struct MV {  // model value: extents + elements in canonical order
	std::vector<long> ext; std::vector<int> v;
	long n() const { long r = 1; for(auto e : ext) { r *= e; } return r; }
};

template<int D, std::size_t... I>
multi::extensions_t<D> make_ext(long const* e, std::index_sequence<I...>) { return multi::extensions_t<D>{multi::iextension{0, e[I]}...}; }
template<int D> multi::extensions_t<D> make_ext(std::vector<long> const& e) { return make_ext<D>(e.data(), std::make_index_sequence<static_cast<std::size_t>(D)>{}); }

constexpr long kExt[8] = {1, 2, 3, 2, 0, 3, 4, 2};

enum Op { O_CTOR_EXT, O_CTOR_EXT_VAL, O_CTOR_ILIST, O_CTOR_ITERS, O_CTOR_VIEW, O_CTOR_CONVERT, O_COPY_CTOR, O_MOVE_CTOR, O_COPY_ASSIGN, O_ASSIGN_VIEW,
          O_ASSIGN_CONVERT, O_ASSIGN_ILIST, O_MOVE_ASSIGN, O_SWAP, O_DECAY, O_WRITE, O_CLEAR, O_SELF_ASSIGN, NOPS };
char const* const opname[] = {"ctor(ext)", "ctor(ext,val)", "ctor{ilist}", "ctor(first,last)", "ctor(view)", "ctor(convertible)", "copy-ctor", "move-ctor", "copy-assign", "assign-view",
          "assign-convertible", "assign{ilist}", "move-assign", "swap", "decay", "write", "clear", "self-assign"};

template<class T, int D>
struct Machine {
	using Arr = multi::array<T, D>;
	static constexpr int NS = 4;
	std::unique_ptr<Arr> slot[NS];
	MV model[NS];
	Ctx& ctx;
	bool nt = false;

	explicit Machine(Ctx& c) : ctx(c) {
		for(int i = 0; i < NS; ++i) { slot[i] = std::make_unique<Arr>(); model[i].ext.assign(static_cast<std::size_t>(D), 0); }
	}

	// ------------------------------------------------------------------------------------------------ invariant after every step
	void check_all(char const* after) {
		if constexpr(std::is_same_v<T, Tracked>) {
			VP_CHECK(vp::obs().errors.empty(), "value/lifetime", "after " << after << ": " << vp::obs().errors.front());
		}
		for(int i = 0; i < NS; ++i) {
			Arr const& A = *slot[i]; MV const& m = model[i];
			VP_CHECK(static_cast<long>(A.num_elements()) == m.n(), "value/num_elements", "slot " << i << " after " << after << ": num_elements()=" << A.num_elements() << " model " << m.n());
			VP_CHECK(A.is_empty() == (A.size() == 0), "value/is_empty", "slot " << i << " after " << after);
			if(m.n() == 0) { continue; }
			long sz[D]; vp::lib_sizes(A, sz);
			for(int k = 0; k < D; ++k) { VP_CHECK(sz[k] == m.ext[static_cast<std::size_t>(k)], "value/extents", "slot " << i << " after " << after << ": extent " << k << " is " << sz[k] << " model " << m.ext[static_cast<std::size_t>(k)]); }
			auto const* p = A.data_elements();
			for(long j = 0; j < m.n(); ++j) { VP_CHECK(val(p[j]) == m.v[static_cast<std::size_t>(j)], "value/elements", "slot " << i << " after " << after << ": element " << j << " is " << val(p[j]) << " model " << m.v[static_cast<std::size_t>(j)]); }
			// every element through the indexing interface too (first, last)
			VP_CHECK(val(A.elements()[0]) == m.v.front() && val(A.elements()[m.n() - 1]) == m.v.back(), "value/elements_range", "slot " << i << " after " << after);
			for(int j = 0; j < i; ++j) {
				if(model[j].n() == 0) { continue; }
				auto const* q = slot[j]->data_elements();
				bool disjoint = (p + m.n() <= q) || (q + model[j].n() <= p);
				VP_CHECK(disjoint, "value/shared_storage", "slots " << j << " and " << i << " share storage after " << after);
			}
		}
	}

	MV make_model(std::vector<long> const& e, int base, int step) const {
		MV m; m.ext = e; m.v.resize(static_cast<std::size_t>(m.n()));
		for(std::size_t j = 0; j < m.v.size(); ++j) { m.v[j] = (base + static_cast<int>(j)*step) % 50; }
		return m;
	}
	std::vector<long> dec_ext(unsigned x, unsigned y) const {
		std::vector<long> e(static_cast<std::size_t>(D));
		unsigned z = x | (y << 8U);
		for(int k = 0; k < D; ++k) { e[static_cast<std::size_t>(k)] = kExt[(z >> (3*k)) & 7U]; }
		return e;
	}
	// build an independent array of element type U with the contents of m
	template<class U> multi::array<U, D> realise(MV const& m) const {
		multi::array<U, D> R(make_ext<D>(m.ext));
		if(m.n() > 0) { auto* p = R.data_elements(); for(long j = 0; j < m.n(); ++j) { p[j] = U(m.v[static_cast<std::size_t>(j)]); } }
		return R;
	}
	void set_contents(Arr& A, MV const& m) { if(m.n() > 0) { auto* p = A.data_elements(); for(long j = 0; j < m.n(); ++j) { p[j] = T(m.v[static_cast<std::size_t>(j)]); } } }
	void print_ext(std::vector<long> const& e) { ctx.desc << '('; for(std::size_t k = 0; k < e.size(); ++k) { if(k) { ctx.desc << 'x'; } ctx.desc << e[k]; } ctx.desc << ')'; }

	// ------------------------------------------------------------------------------------------------ sink of a generated view of slot b
	struct Sink {
		Machine& M; int action; int a, b; unsigned variant;
		template<class V, class I>
		void operator()(V& v, Model& m, I& /*interp*/) {
			static_assert(vp::rank_of<V> == D);
			MV want; want.ext.resize(static_cast<std::size_t>(D));
			for(int k = 0; k < D; ++k) { want.ext[static_cast<std::size_t>(k)] = m.d[static_cast<std::size_t>(k)].size; }
			if(!m.empty()) {
				long ord[D] = {};
				do { want.v.push_back(M.model[b].v[static_cast<std::size_t>(m.pos(ord))]); } while(vp::next_ord(m, ord));
			}
			bool noncontig = !m.empty() && !m.compact_rowmajor();
			M.ctx.desc << " => "; m.print(M.ctx.desc);
			if(action == O_CTOR_VIEW) {
				M.slot[a] = (variant & 1U) ? std::make_unique<Arr>(v) : std::make_unique<Arr>(std::as_const(v));
				if(noncontig) { M.nt = true; }
			} else if(action == O_ASSIGN_VIEW) {
				if(m.empty() && v.size() != 0 && !vp::known_mode()) {
					// recorded known finding: assigning a view with zero elements but non-zero leading size (extents like (1,0)) to an array takes the
					// "same number of elements: reshape and assign" path and trips the extension assertion of the view assignment; excluded and counted
					M.ctx.count("excluded_assign_zero_element_view"); M.ctx.desc << " (excluded)";
					return;
				}
				if(M.model[a].ext != want.ext || noncontig) { M.nt = true; }
				if(variant & 1U) { *M.slot[a] = v; } else { *M.slot[a] = std::as_const(v); }
			} else {  // decay
				if(noncontig) { M.nt = true; }
				switch(variant % 3U) {
					case 0: M.slot[a] = std::make_unique<Arr>(+v); break;
					case 1: M.slot[a] = std::make_unique<Arr>(v.decay()); break;
					default: { auto c = +std::as_const(v); static_assert(std::is_same_v<decltype(c), Arr>); *M.slot[a] = std::move(c); break; }
				}
			}
			M.model[a] = want;
		}
	};

	void with_view(int action, int a, int b, Input const& in, int rec) {
		// the four trailing bytes of the record are the view program (one operation each)
		Input vin; vin.H = 0; vin.R = 4;
		for(int j = 4; j < 8; ++j) { unsigned x = in.op(rec, j); if(x == 0) { continue; } vin.bytes.insert(vin.bytes.end(), {static_cast<std::uint8_t>(x), static_cast<std::uint8_t>(x*31U + in.op(rec, 3)), static_cast<std::uint8_t>(x*17U + 3U), static_cast<std::uint8_t>(x >> 2U)}); }
		Sink sink{*this, action, a, b, in.op(rec, 3)};
		vp::Interp<Sink, false, 5, true> interp(vin, ctx, sink);
		Model m; long st = 1; m.d.resize(D);
		for(int k = D - 1; k >= 0; --k) { m.d[static_cast<std::size_t>(k)] = vp::Dim{0, model[b].ext[static_cast<std::size_t>(k)], st}; st *= model[b].ext[static_cast<std::size_t>(k)]; }
		interp.null_root = (model[b].n() == 0);
		Arr& B = *slot[b];
		vp::check_shape(B, m, "view root");
		if((in.op(rec, 3) & 2U) != 0) { interp.step(std::as_const(B), m); } else { interp.step(B, m); }
	}

	// nested initializer lists of a few fixed shapes
	void from_ilist(int a, bool assign, unsigned x) {
		int s = static_cast<int>(x % 40U);
		MV m;
		auto apply = [&](auto il_maker) { if(assign) { *slot[a] = il_maker(); } else { slot[a] = std::make_unique<Arr>(il_maker()); } };
		if constexpr(D == 1) {
			switch(x % 3U) {
				case 0: m.ext = {3}; m.v = {s, s + 1, s + 2}; if(assign) { *slot[a] = {T(s), T(s + 1), T(s + 2)}; } else { slot[a].reset(new Arr{T(s), T(s + 1), T(s + 2)}); } break;
				case 1: m.ext = {1}; m.v = {s}; if(assign) { *slot[a] = {T(s)}; } else { slot[a].reset(new Arr{T(s)}); } break;
				default: m.ext = {0}; if(assign) { *slot[a] = {}; } else { slot[a].reset(new Arr{}); } break;
			}
		} else if constexpr(D == 2) {
			switch(x % 3U) {
				case 0: m.ext = {2, 3}; m.v = {s, s + 1, s + 2, s + 3, s + 4, s + 5};
					if(assign) { *slot[a] = {{T(s), T(s + 1), T(s + 2)}, {T(s + 3), T(s + 4), T(s + 5)}}; } else { slot[a].reset(new Arr{{T(s), T(s + 1), T(s + 2)}, {T(s + 3), T(s + 4), T(s + 5)}}); } break;
				case 1: m.ext = {3, 1}; m.v = {s, s + 1, s + 2};
					if(assign) { *slot[a] = {{T(s)}, {T(s + 1)}, {T(s + 2)}}; } else { slot[a].reset(new Arr{{T(s)}, {T(s + 1)}, {T(s + 2)}}); } break;
				default: m.ext = {0, 0}; if(assign) { *slot[a] = {}; } else { slot[a].reset(new Arr{}); } break;
			}
		} else if constexpr(D == 3) {
			m.ext = {2, 1, 2}; m.v = {s, s + 1, s + 2, s + 3};
			if(assign) { *slot[a] = {{{T(s), T(s + 1)}}, {{T(s + 2), T(s + 3)}}}; } else { slot[a].reset(new Arr{{{T(s), T(s + 1)}}, {{T(s + 2), T(s + 3)}}}); }
		} else {
			(void)apply; (void)s;
			m.ext.assign(static_cast<std::size_t>(D), 0);
			if(assign) { *slot[a] = {}; } else { slot[a].reset(new Arr{}); }
		}
		if(assign && model[a].ext != m.ext) { nt = true; }
		model[a] = m;
	}

	void from_iters(int a, MV const& m) {
		if constexpr(D == 1) {
			std::vector<T> src; for(int x : m.v) { src.emplace_back(x); }
			slot[a] = std::make_unique<Arr>(src.begin(), src.end());
		} else {
			MV sub; sub.ext.assign(m.ext.begin() + 1, m.ext.end());
			long sn = sub.n();
			std::vector<multi::array<T, D - 1>> src;
			for(long i = 0; i < m.ext[0]; ++i) {
				multi::array<T, D - 1> S(make_ext<D - 1>(sub.ext));
				if(sn > 0) { auto* p = S.data_elements(); for(long j = 0; j < sn; ++j) { p[j] = T(m.v[static_cast<std::size_t>(i*sn + j)]); } }
				src.push_back(std::move(S));
			}
			slot[a] = std::make_unique<Arr>(src.begin(), src.end());
		}
	}

	void run(Input const& in) {
		for(int r = 0; r < in.nops(); ++r) {
			unsigned op = in.op(r, 0) % NOPS;
			int a = in.op(r, 1) % NS, b = in.op(r, 2) % NS;
			unsigned x = in.op(r, 3);
			ctx.desc << " | " << opname[op] << ' ' << a;
			bool const onto_moved_from = false;
			(void)onto_moved_from;
			switch(op) {
				case O_CTOR_EXT: {
					auto e = dec_ext(x, in.op(r, 4)); print_ext(e);
					slot[a] = std::make_unique<Arr>(make_ext<D>(e));
					if constexpr(std::is_same_v<T, Tracked>) { MV m; m.ext = e; m.v.assign(static_cast<std::size_t>(m.n()), 0); model[a] = m; }  // value-initialised
					else { model[a] = make_model(e, in.op(r, 5), 1); set_contents(*slot[a], model[a]); }  // trivial elements are unspecified: written by the harness
					break;
				}
				case O_CTOR_EXT_VAL: {
					auto e = dec_ext(x, in.op(r, 4)); print_ext(e); int v0 = in.op(r, 5) % 50;
					slot[a] = std::make_unique<Arr>(make_ext<D>(e), T(v0));
					MV m; m.ext = e; m.v.assign(static_cast<std::size_t>(m.n()), v0); model[a] = m;
					break;
				}
				case O_CTOR_ILIST: from_ilist(a, false, x); break;
				case O_CTOR_ITERS: {  // precondition read from the callers (the initializer-list constructor checks size()==0 first): the range is not empty, *first is dereferenced
					auto e = dec_ext(x, in.op(r, 4)); for(auto& ek : e) { if(ek == 0) { ek = 1; } }  // (zero-element results iterate a null data pointer: null-root family, see known_findings)
					print_ext(e); MV m = make_model(e, in.op(r, 5), 3); from_iters(a, m); model[a] = m; break; }
				case O_CTOR_VIEW: case O_ASSIGN_VIEW: case O_DECAY: {
					if(a == b) { b = (b + 1) % NS; }
					ctx.desc << " <- view of " << b << ':';
					if(op == O_ASSIGN_VIEW && model[a].n() == 0 && moved_from[a]) { nt = true; }
					with_view(static_cast<int>(op), a, b, in, r);
					break;
				}
				case O_CTOR_CONVERT: case O_ASSIGN_CONVERT: {
					if(a == b) { b = (b + 1) % NS; }
					ctx.desc << " <- " << b;
					using U = std::conditional_t<std::is_same_v<T, int>, long, int>;
					auto other = realise<U>(model[b]);
					if(op == O_CTOR_CONVERT) { slot[a] = std::make_unique<Arr>(other); }
					else { if(model[a].ext != model[b].ext) { nt = true; } *slot[a] = other; }
					model[a] = model[b];
					break;
				}
				case O_COPY_CTOR: { if(a == b) { b = (b + 1) % NS; } ctx.desc << " <- " << b; slot[a] = std::make_unique<Arr>(*slot[b]); model[a] = model[b]; break; }
				case O_MOVE_CTOR: {
					if(a == b) { b = (b + 1) % NS; }
					ctx.desc << " <- " << b;
					auto const* before = slot[b]->data_elements(); long nb = model[b].n();
					long ops0 = vp::obs().copies_and_moves() + vp::obs().ctor_default + vp::obs().ctor_value;
					slot[a] = std::make_unique<Arr>(std::move(*slot[b]));
					long ops1 = vp::obs().copies_and_moves() + vp::obs().ctor_default + vp::obs().ctor_value;
					VP_CHECK(ops1 == ops0, "value/move_copies", "move construction performed " << (ops1 - ops0) << " element operations");
					if(nb > 0) { VP_CHECK(slot[a]->data_elements() == before, "value/move_buffer", "move construction did not transfer the buffer"); }
					model[a] = model[b]; model[b].ext.assign(static_cast<std::size_t>(D), 0); model[b].v.clear(); moved_from[b] = true;
					break;
				}
				case O_COPY_ASSIGN: {
					if(a == b) { b = (b + 1) % NS; }
					ctx.desc << " <- " << b;
					if(model[a].ext != model[b].ext) { nt = true; }
					if(moved_from[a]) { nt = true; }
					*slot[a] = *slot[b]; model[a] = model[b];
					break;
				}
				case O_SELF_ASSIGN: {
					auto const* before = slot[a]->data_elements();
					auto& ref = *slot[a];
					*slot[a] = ref;
					VP_CHECK(slot[a]->data_elements() == before, "value/self_assign", "self-assignment reallocated");
					break;
				}
				case O_ASSIGN_ILIST: from_ilist(a, true, x); break;
				case O_MOVE_ASSIGN: {
					if(a == b) { b = (b + 1) % NS; }
					ctx.desc << " <- " << b;
					auto const* before = slot[b]->data_elements(); long nb = model[b].n();
					long ops0 = vp::obs().ctor_copy + vp::obs().ctor_move + vp::obs().assign_copy + vp::obs().assign_move + vp::obs().ctor_default + vp::obs().ctor_value;
					if(moved_from[a]) { nt = true; }
					*slot[a] = std::move(*slot[b]);
					long ops1 = vp::obs().ctor_copy + vp::obs().ctor_move + vp::obs().assign_copy + vp::obs().assign_move + vp::obs().ctor_default + vp::obs().ctor_value;
					VP_CHECK(ops1 == ops0, "value/move_copies", "move assignment performed " << (ops1 - ops0) << " element constructions/assignments");
					if(nb > 0) { VP_CHECK(slot[a]->data_elements() == before, "value/move_buffer", "move assignment did not transfer the buffer"); }
					model[a] = model[b]; model[b].ext.assign(static_cast<std::size_t>(D), 0); model[b].v.clear(); moved_from[b] = true;
					break;
				}
				case O_SWAP: {
					if(a == b) { b = (b + 1) % NS; }
					ctx.desc << " <-> " << b;
					auto const* pa = slot[a]->data_elements(); auto const* pb = slot[b]->data_elements();
					if((x & 1U) != 0) { slot[a]->swap(*slot[b]); } else { using std::swap; swap(*slot[a], *slot[b]); }
					if(model[a].n() > 0 && model[b].n() > 0) { VP_CHECK(slot[a]->data_elements() == pb && slot[b]->data_elements() == pa, "value/swap_buffers", "swap did not exchange the buffers"); }
					std::swap(model[a], model[b]); std::swap(moved_from[a], moved_from[b]);
					break;
				}
				case O_WRITE: {
					if(model[a].n() == 0) { break; }
					long k = static_cast<long>(x | (static_cast<unsigned>(in.op(r, 4)) << 8U)) % model[a].n();
					int nv = in.op(r, 5) % 50;
					ctx.desc << " [" << k << "]=" << nv;
					if((in.op(r, 6) & 1U) != 0) { slot[a]->elements()[k] = T(nv); } else { slot[a]->data_elements()[k] = T(nv); }
					model[a].v[static_cast<std::size_t>(k)] = nv;
					break;
				}
				case O_CLEAR: { slot[a]->clear(); model[a].ext.assign(static_cast<std::size_t>(D), 0); model[a].v.clear(); break; }
				default: break;
			}
			if(op != O_MOVE_CTOR && op != O_MOVE_ASSIGN && op != O_SWAP) { moved_from[a] = false; }
			check_all(opname[op]);
		}
		// everything dies: nothing outstanding
		for(auto& s : slot) { s.reset(); }
		if constexpr(std::is_same_v<T, Tracked>) {
			VP_CHECK(vp::obs().errors.empty(), "value/lifetime", "at destruction: " << vp::obs().errors.front());
			VP_CHECK(vp::obs().alive.empty(), "value/leak", vp::obs().alive.size() << " elements still alive after all arrays died");
		}
		ctx.nontrivial = nt && in.nops() >= 2;
	}
	bool moved_from[NS] = {};
};

template<class T, int D> void run_td(Input const& in, Ctx& ctx) {
	vp::obs().reset();
	ctx.desc << (std::is_same_v<T, int> ? "int" : "Tracked") << " D=" << D;
	Machine<T, D> M(ctx);
	M.run(in);
	static char const* const dl[] = {"D0", "D1", "D2", "D3", "D4"};
	ctx.label(dl[D]); ctx.label(std::is_same_v<T, int> ? "T_int" : "T_Tracked");
}

}  // namespace

struct Prop {
	static constexpr char const* id = "C04";
	static constexpr int H = 2, R = 8, MAXOPS = 10;
	static void run(vp::Input const& in, vp::Ctx& ctx) {
		bool tr = (in.head(0) & 1U) != 0;
		switch(in.head(1) % 4) {
			case 0: tr ? run_td<Tracked, 1>(in, ctx) : run_td<int, 1>(in, ctx); break;
			case 1: tr ? run_td<Tracked, 2>(in, ctx) : run_td<int, 2>(in, ctx); break;
			case 2: tr ? run_td<Tracked, 3>(in, ctx) : run_td<int, 3>(in, ctx); break;
			default: tr ? run_td<Tracked, 4>(in, ctx) : run_td<int, 4>(in, ctx); break;
		}
	}
};
VP_MAIN(Prop)
