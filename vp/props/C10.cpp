// C10 — storage stays with the allocator that produced it; propagation follows the allocator traits
#include "../machine.hpp"

namespace {
using vp::Tracked;

template<int F, int D> void run_fd(vp::Input const& in, vp::Ctx& ctx) {
	vp::obs().reset();
	ctx.desc << "Tracked D=" << D << " POCCA=" << ((F & 1) != 0) << " POCMA=" << ((F & 2) != 0) << " POCS=" << ((F & 4) != 0) << " always_equal=" << ((F & 8) != 0) << " ids=" << (in.head(2) & 15U);
	{
		vp::Machine<vp::MCfg<Tracked, vp::ObsAlloc<Tracked, F>, F>, D> M(ctx, in.head(2));
		M.enabled = vp::kValueOps | vp::kAllocOps | vp::bit(vp::O_REEXTENT) | vp::bit(vp::O_REEXTENT_VAL) | vp::bit(vp::O_ASSIGN_ITERS) | vp::bit(vp::O_DESTROY);
		M.enabled &= ~vp::bit(vp::O_DECAY);
		M.run(in);
		bool unequal = false; for(int i = 1; i < 4; ++i) { unequal |= ((in.head(2) >> i) & 1U) != (in.head(2) & 1U); }
		ctx.nontrivial = unequal && in.nops() >= 2;
	}
	static char const* const fl[] = {"F0", "F1_pocca", "F2_pocma", "F3", "F4_pocs", "F5", "F6", "F7_all", "F8_always_equal"};
	ctx.label(fl[F > 8 ? 8 : F]);
}

// ------------------------------------------------------------------------------------------------ pmr arrays on two memory resources
struct PmrMachine {
	using Arr = boost::multi::array<int, 2, std::pmr::polymorphic_allocator<int>>;
	vp::TrackResource r[3] = {vp::TrackResource(0), vp::TrackResource(1), vp::TrackResource(2)};  // r[0] is the default resource
	std::unique_ptr<Arr> slot[4];
	int res[4]; vp::MV model[4];
	vp::Ctx& ctx;
	explicit PmrMachine(vp::Ctx& c, unsigned ids) : ctx(c) {
		for(int i = 0; i < 4; ++i) { res[i] = 1 + static_cast<int>((ids >> i) & 1U); slot[i] = std::make_unique<Arr>(std::pmr::polymorphic_allocator<int>(&r[res[i]])); model[i].ext = {0, 0}; }
	}
	void check(char const* after) {
		VP_CHECK(vp::obs().errors.empty(), "pmr/error", "after " << after << ": " << vp::obs().errors.front());
		for(int i = 0; i < 4; ++i) {
			Arr const& A = *slot[i];
			VP_CHECK(A.get_allocator().resource() == &r[res[i]], "pmr/resource_identity", "slot " << i << " after " << after << ": get_allocator().resource() is not resource " << res[i]);
			VP_CHECK(static_cast<long>(A.num_elements()) == model[i].n(), "pmr/num_elements", "slot " << i << " after " << after);
			if(model[i].n() == 0) { continue; }
			auto* p = const_cast<int*>(A.data_elements());
			VP_CHECK(r[res[i]].live.count(p) == 1, "pmr/block_owner", "slot " << i << " after " << after << ": its storage was not allocated by its own resource " << res[i]);
			for(long j = 0; j < model[i].n(); ++j) { VP_CHECK(p[j] == model[i].v[static_cast<std::size_t>(j)], "pmr/elements", "slot " << i << " element " << j << " after " << after); }
		}
	}
	void run(vp::Input const& in) {
		std::pmr::memory_resource* old = std::pmr::set_default_resource(&r[0]);
		struct Restore { std::pmr::memory_resource* o; ~Restore() { std::pmr::set_default_resource(o); } } restore{old};
		for(int k = 0; k < in.nops(); ++k) {
			unsigned op = in.op(k, 0) % 9U; int a = in.op(k, 1) % 4, b = in.op(k, 2) % 4; unsigned x = in.op(k, 3);
			if(a == b) { b = (b + 1) % 4; }
			static char const* const nm[] = {"ctor(ext,val,res)", "copy-ctor", "copy-ctor(res)", "move-ctor", "move-ctor(res)", "copy-assign", "move-assign", "swap", "reextent"};
			ctx.desc << " | " << nm[op] << ' ' << a;
			switch(op) {
				case 0: { long e0 = vp::kMExt[x & 7U], e1 = vp::kMExt[(x >> 3U) & 7U]; int id = 1 + static_cast<int>((x >> 6U) & 1U); int v0 = in.op(k, 4) % 50;
					ctx.desc << '(' << e0 << 'x' << e1 << ")res" << id;
					slot[a] = std::make_unique<Arr>(boost::multi::extensions_t<2>{e0, e1}, v0, std::pmr::polymorphic_allocator<int>(&r[id]));
					res[a] = id; model[a].ext = {e0, e1}; model[a].v.assign(static_cast<std::size_t>(e0*e1), v0); if(e0*e1 == 0) { model[a].ext = {0, 0}; } break; }
				case 1: ctx.desc << " <- " << b; slot[a] = std::make_unique<Arr>(*slot[b]); res[a] = 0; model[a] = model[b]; break;  // select_on_container_copy_construction of pmr: the default resource
				case 2: { int id = 1 + static_cast<int>(x & 1U); ctx.desc << " <- " << b << " res" << id; slot[a] = std::make_unique<Arr>(*slot[b], std::pmr::polymorphic_allocator<int>(&r[id])); res[a] = id; model[a] = model[b]; break; }
				case 3: ctx.desc << " <- " << b; slot[a] = std::make_unique<Arr>(std::move(*slot[b])); res[a] = res[b]; model[a] = model[b]; model[b].ext = {0, 0}; model[b].v.clear(); break;
				case 4: { int id = 1 + static_cast<int>(x & 1U); ctx.desc << " <- " << b << " res" << id;
					if(id != res[b]) { ctx.count("move_ctor_unequal_resource"); }  // the elements are moved into storage of the given resource, the source is left empty (fix aa19970)
					slot[a] = std::make_unique<Arr>(std::move(*slot[b]), std::pmr::polymorphic_allocator<int>(&r[id])); res[a] = id; model[a] = model[b]; model[b].ext = {0, 0}; model[b].v.clear(); break; }
				case 5: ctx.desc << " <- " << b; *slot[a] = *slot[b]; model[a] = model[b]; break;  // POCCA is false for pmr: the resource stays
				case 6: ctx.desc << " <- " << b;
					*slot[a] = std::move(*slot[b]); model[a] = model[b]; model[b].ext = {0, 0}; model[b].v.clear(); break;
				case 7: ctx.desc << " <-> " << b; if(res[a] != res[b]) { ctx.count("excluded_swap_unequal_resources_is_UB"); break; } slot[a]->swap(*slot[b]); std::swap(model[a], model[b]); break;
				default: { long e0 = vp::kMExt[x & 7U], e1 = vp::kMExt[(x >> 3U) & 7U]; ctx.desc << '(' << e0 << 'x' << e1 << ')';
					vp::MV m; m.ext = {e0, e1}; m.v.assign(static_cast<std::size_t>(e0*e1), 7);
					for(long i = 0; i < e0; ++i) { for(long j = 0; j < e1; ++j) { if(model[a].n() > 0 && i < model[a].ext[0] && j < model[a].ext[1]) { m.v[static_cast<std::size_t>(i*e1 + j)] = model[a].v[static_cast<std::size_t>(i*model[a].ext[1] + j)]; } } }
					slot[a]->reextent({e0, e1}, 7); if(m.n() == 0) { m.ext = {0, 0}; } model[a] = m; break; }
			}
			check(nm[op]);
		}
		for(auto& s : slot) { s.reset(); }
		VP_CHECK(vp::obs().errors.empty(), "pmr/error", "at destruction: " << vp::obs().errors.front());
		for(auto& rr : r) { VP_CHECK(rr.live.empty(), "pmr/leak", "resource " << rr.id << " has " << rr.live.size() << " outstanding block(s)"); }
	}
};

void run_pmr(vp::Input const& in, vp::Ctx& ctx) {
	vp::obs().reset();
	ctx.desc << "pmr D=2 ids=" << (in.head(2) & 15U);
	PmrMachine M(ctx, in.head(2));
	M.run(in);
	bool unequal = false; for(int i = 1; i < 4; ++i) { unequal |= ((in.head(2) >> i) & 1U) != (in.head(2) & 1U); }
	ctx.nontrivial = unequal && in.nops() >= 2;
	ctx.label("pmr");
}
}  // namespace

struct Prop {
	static constexpr char const* id = "C10";
	static constexpr int H = 3, R = 8, MAXOPS = 8;
	static void run(vp::Input const& in, vp::Ctx& ctx) {
		switch(in.head(0) % 11) {
			case 0: run_fd<0, 2>(in, ctx); break;
			case 1: run_fd<1, 2>(in, ctx); break;
			case 2: run_fd<2, 2>(in, ctx); break;
			case 3: run_fd<3, 1>(in, ctx); break;
			case 4: run_fd<4, 2>(in, ctx); break;
			case 5: run_fd<5, 1>(in, ctx); break;
			case 6: run_fd<6, 1>(in, ctx); break;
			case 7: run_fd<7, 2>(in, ctx); break;
			case 8: run_fd<8, 1>(in, ctx); break;
			default: run_pmr(in, ctx); break;
		}
	}
};
VP_MAIN(Prop)
