// vp/c02.hpp — C02: iterators, cursors and flat element ranges obey the random-access laws
#pragma once

#include "c01.hpp"

namespace vp {

// does *it designate the same thing as ref (sub-view: same base, same layout; element: same address)?
template<class A, class B>
bool same_thing(A&& a, B&& b) {
	if constexpr(std::is_arithmetic_v<std::decay_t<A>>) { return std::addressof(a) == std::addressof(b); }
	else { return a.base() == b.base() && a.layout() == b.layout(); }
}

template<class T>
struct C02Fin {
	T const* root; long N; Ctx& ctx; unsigned sel;

	// positions to test: all when few, else a spread sample that always contains both ends
	static std::vector<long> positions(long n, long cap, unsigned sel) {
		std::vector<long> r;
		if(n + 1 <= cap) { for(long p = 0; p <= n; ++p) { r.push_back(p); } return r; }
		r.push_back(0); r.push_back(1); r.push_back(n - 1); r.push_back(n);
		long step = std::max<long>(1, n / (cap - 4));
		for(long p = 2 + static_cast<long>(sel) % step; p < n - 1 && static_cast<long>(r.size()) < cap; p += step) { r.push_back(p); }
		std::sort(r.begin(), r.end()); r.erase(std::unique(r.begin(), r.end()), r.end());
		return r;
	}

	template<class V, class It>
	void iterator_laws(V& v, Model const& m, It const b, It const e, char const* which) {
		long const n = m.d[0].size;
		long const first = m.d[0].first;
		VP_CHECK(e - b == n, "iter/distance", which << ": end-begin=" << (e - b) << " size=" << n);
		VP_CHECK((b == e) == (n == 0), "iter/empty", which << ": (begin==end)=" << (b == e) << " size=" << n);
		auto ps = positions(n, 10, sel);
		for(long p : ps) {
			It it = b + p;
			VP_CHECK(it - b == p, "iter/plus_minus", which << ": (begin+" << p << ")-begin=" << (it - b));
			VP_CHECK(e - it == n - p, "iter/to_end", which << ": end-(begin+" << p << ")=" << (e - it));
			{ It jt = b; for(long k = 0; k < p; ++k) { ++jt; } VP_CHECK(jt == it, "iter/increment", which << ": " << p << "x ++begin != begin+" << p); }
			{ It jt = e; for(long k = 0; k < n - p; ++k) { --jt; } VP_CHECK(jt == it, "iter/decrement", which << ": " << (n - p) << "x --end != begin+" << p); }
			{ It jt = e; jt -= (n - p); VP_CHECK(jt == it, "iter/minus_assign", which << ": end-=" << (n - p) << " != begin+" << p); }
			{ It jt = e - (n - p); VP_CHECK(jt == it, "iter/minus", which << ": end-" << (n - p) << " != begin+" << p); }
			{ It jt = b; jt += p; VP_CHECK(jt == it && !(jt != it), "iter/plus_assign", which << ": begin+=" << p << " != begin+" << p); }
			{ It c(it); VP_CHECK(c == it, "iter/copy", which << ": copy differs at " << p); }
			{ It a = (p == 0) ? e : b; a = it; VP_CHECK(a == it && a - b == p, "iter/assign", which << ": assigned iterator differs at " << p); }
			if(p < n) {
				VP_CHECK(same_thing(*it, v[first + p]), "iter/deref_index", which << ": *(begin+" << p << ") is not v[" << (first + p) << "]");
				{ It a = e; a = it; VP_CHECK(same_thing(*a, v[first + p]), "iter/assign_deref", which << ": *(assigned) is not v[" << (first + p) << "]"); }
				{ It jt = it; It old = jt++; VP_CHECK(old == it && jt - it == 1, "iter/post_increment", which << ": it++ at " << p); }
			}
			if(p > 0) { It jt = it; It old = jt--; VP_CHECK(old == it && it - jt == 1, "iter/post_decrement", which << ": it-- at " << p); }
			for(long q : ps) {
				It jt = b + q;
				VP_CHECK((it < jt) == (jt - it > 0), "iter/less", which << ": (b+" << p << " < b+" << q << ")=" << (it < jt) << " but difference " << (jt - it));
				VP_CHECK((it == jt) == (p == q), "iter/equal", which << ": (b+" << p << " == b+" << q << ")=" << (it == jt));
				VP_CHECK((it != jt) == (p != q), "iter/not_equal", which << ": (b+" << p << " != b+" << q << ")=" << (it != jt));
				VP_CHECK((it <= jt) == (p <= q) && (it > jt) == (p > q) && (it >= jt) == (p >= q), "iter/order", which << ": <=,>,>= inconsistent for " << p << "," << q);
				VP_CHECK(it - jt == p - q, "iter/difference", which << ": (b+" << p << ")-(b+" << q << ")=" << (it - jt));
				VP_CHECK((it + (q - p)) == jt, "iter/offset", which << ": (b+" << p << ")+" << (q - p) << " != b+" << q);
				VP_CHECK(((it + (q - p)) - (q - p)) == it, "iter/offset_roundtrip", which << ": ((b+" << p << ")+" << (q - p) << ")-" << (q - p) << " != b+" << p);
				if(q < n) { VP_CHECK(same_thing(it[q - p], *jt), "iter/subscript", which << ": (b+" << p << ")[" << (q - p) << "] is not *(b+" << q << ")"); }
			}
		}
	}

	template<int D, std::size_t... I> static multi::extensions_t<D> other_extensions(std::index_sequence<I...> /*unused*/) { return multi::extensions_t<D>{multi::iextension{0, static_cast<multi::index>(I == 0 ? 3 : 2)}...}; }

	template<class V, class Rng>
	void elements_laws(V& /*v*/, Model const& m, Rng&& es, char const* which) {
		constexpr int D = rank_of<V>;
		long const n = m.nelems();
		VP_CHECK(static_cast<long>(es.size()) == n, "elems/size", which << ": elements().size()=" << es.size() << " num_elements=" << n);
		auto b = es.begin(); auto e = es.end();
		using It = decltype(b);
		VP_CHECK(e - b == n, "elems/distance", which << ": end-begin=" << (e - b) << " n=" << n);
		VP_CHECK((b == e) == (n == 0), "elems/empty", which << ": begin==end is " << (b == e) << " n=" << n);
		if(n == 0) { return; }
		// canonical order: last index fastest
		std::vector<long> want; want.reserve(static_cast<std::size_t>(n));
		{ long ord[D] = {}; do { want.push_back(m.pos(ord)); } while(next_ord(m, ord)); }
		{ // forward walk, subscript of the range, subscript of begin
			It it = b;
			for(long k = 0; k < n; ++k, ++it) {
				VP_CHECK(std::addressof(*it) - root == want[static_cast<std::size_t>(k)], "elems/forward", which << ": ++ walk at k=" << k << " designates root position " << (std::addressof(*it) - root) << " expected " << want[static_cast<std::size_t>(k)]);
				VP_CHECK(std::addressof(es[k]) - root == want[static_cast<std::size_t>(k)], "elems/range_subscript", which << ": elements()[" << k << "] at root position " << (std::addressof(es[k]) - root) << " expected " << want[static_cast<std::size_t>(k)]);
				VP_CHECK(it - b == k, "elems/position", which << ": it-begin=" << (it - b) << " after " << k << " increments");
			}
			VP_CHECK(it == e, "elems/forward_end", which << ": n increments from begin do not reach end");
			// an end *reached by increments* is the end: stepping and jumping back from it designates the last elements (the position an iterator holds must not
			// depend on how it got there)
			{ It a = it; --a; VP_CHECK(a - b == n - 1 && std::addressof(*a) - root == want[static_cast<std::size_t>(n - 1)], "elems/stepped_end_decrement", which << ": -- of an end reached by increments designates root position " << (std::addressof(*a) - root) << " expected " << want[static_cast<std::size_t>(n - 1)]); }
			for(long k : {1L, 2L, n}) {
				if(k > n) { continue; }
				{ It a = it; a -= k; VP_CHECK(a == b + (n - k) && std::addressof(*a) - root == want[static_cast<std::size_t>(n - k)], "elems/stepped_end_minus_assign", which << ": (end reached by increments) -= " << k << " designates root position " << (std::addressof(*a) - root) << " expected " << want[static_cast<std::size_t>(n - k)]); }
				{ It a = it - k; VP_CHECK(std::addressof(*a) - root == want[static_cast<std::size_t>(n - k)], "elems/stepped_end_minus", which << ": (end reached by increments) - " << k << " designates root position " << (std::addressof(*a) - root) << " expected " << want[static_cast<std::size_t>(n - k)]); }
				VP_CHECK(std::addressof(it[-k]) - root == want[static_cast<std::size_t>(n - k)], "elems/stepped_end_subscript", which << ": (end reached by increments)[-" << k << "] designates root position " << (std::addressof(it[-k]) - root) << " expected " << want[static_cast<std::size_t>(n - k)]);
			}
		}
		{ // positions reached by single steps, then jumps from there (forwards from the middle, backwards from the middle)
			long const mid = n/2;
			It it = b; for(long k = 0; k < mid; ++k) { ++it; }
			for(long q : {0L, mid, n - 1}) {
				VP_CHECK(std::addressof(it[q - mid]) - root == want[static_cast<std::size_t>(q)], "elems/stepped_subscript", which << ": (begin stepped " << mid << " times)[" << (q - mid) << "] designates root position " << (std::addressof(it[q - mid]) - root) << " expected " << want[static_cast<std::size_t>(q)]);
				{ It a = it; a += (q - mid); VP_CHECK(a == b + q && std::addressof(*a) - root == want[static_cast<std::size_t>(q)], "elems/stepped_plus_assign", which << ": (begin stepped " << mid << " times) += " << (q - mid)); }
				{ It a = it; a -= (mid - q); VP_CHECK(a == b + q && std::addressof(*a) - root == want[static_cast<std::size_t>(q)], "elems/stepped_minus_assign", which << ": (begin stepped " << mid << " times) -= " << (mid - q)); }
			}
			It jt = e; for(long k = n; k > mid; --k) { --jt; }
			VP_CHECK(jt == it, "elems/stepped_meet", which << ": stepping forwards from begin and backwards from end do not meet");
			for(long q : {0L, n - 1}) { It a = jt; a += (q - mid); VP_CHECK(std::addressof(*a) - root == want[static_cast<std::size_t>(q)], "elems/stepped_back_plus_assign", which << ": (end stepped back to " << mid << ") += " << (q - mid)); }
		}
		{ // backward walk from end
			It it = e;
			for(long k = n - 1; k >= 0; --k) {
				--it;
				VP_CHECK(std::addressof(*it) - root == want[static_cast<std::size_t>(k)], "elems/backward", which << ": -- walk at k=" << k << " designates root position " << (std::addressof(*it) - root) << " expected " << want[static_cast<std::size_t>(k)]);
			}
			VP_CHECK(it == b, "elems/backward_begin", which << ": n decrements from end do not reach begin");
			for(long k : {1L, n - 1}) {  // a begin reached by decrements is the begin
				if(k <= 0 || k >= n) { continue; }
				{ It a = it; a += k; VP_CHECK(a == b + k && std::addressof(*a) - root == want[static_cast<std::size_t>(k)], "elems/stepped_begin_plus_assign", which << ": (begin reached by decrements) += " << k); }
				VP_CHECK(std::addressof(it[k]) - root == want[static_cast<std::size_t>(k)], "elems/stepped_begin_subscript", which << ": (begin reached by decrements)[" << k << "]");
			}
			{ It a = it; a += n; VP_CHECK(a == e, "elems/stepped_begin_to_end", which << ": (begin reached by decrements) += n is not end()"); }
		}
		VP_CHECK(std::addressof(es.front()) - root == want.front(), "elems/front", which << ": front()");
		VP_CHECK(std::addressof(es.back()) - root == want.back(), "elems/back", which << ": back()");
		auto ps = positions(n, 14, sel);
		for(long p : ps) {
			It it = b + p;
			VP_CHECK(it - b == p && e - it == n - p, "elems/plus", which << ": (begin+" << p << ")-begin=" << (it - b));
			if(p < n) { VP_CHECK(std::addressof(*it) - root == want[static_cast<std::size_t>(p)], "elems/plus_deref", which << ": *(begin+" << p << ") at root position " << (std::addressof(*it) - root) << " expected " << want[static_cast<std::size_t>(p)]); }
			{ It c(it); VP_CHECK(c == it, "elems/copy", which << ": copy differs"); if(p < n) { VP_CHECK(std::addressof(*c) == std::addressof(*it), "elems/copy_deref", which << ": copy designates another element"); } }
			{ It a = (p == 0) ? e : b; a = it; VP_CHECK(a == it, "elems/assign", which << ": assigned iterator compares different at " << p);
			  if(p < n) { VP_CHECK(std::addressof(*a) - root == want[static_cast<std::size_t>(p)], "elems/assign_deref", which << ": iterator assigned from begin+" << p << " designates root position " << (std::addressof(*a) - root) << " expected " << want[static_cast<std::size_t>(p)]); } }
			for(long q : ps) {
				It jt = b + q;
				VP_CHECK((it < jt) == (q - p > 0), "elems/less", which << ": (b+" << p << " < b+" << q << ")");
				VP_CHECK((it == jt) == (p == q) && (it != jt) == (p != q), "elems/equal", which << ": ==/!= for " << p << "," << q);
				VP_CHECK(jt - it == q - p, "elems/difference", which << ": difference for " << p << "," << q);
				if(q < n) {
					VP_CHECK(std::addressof(it[q - p]) - root == want[static_cast<std::size_t>(q)], "elems/subscript", which << ": (b+" << p << ")[" << (q - p) << "] at root position " << (std::addressof(it[q - p]) - root) << " expected " << want[static_cast<std::size_t>(q)]);
					{ It a = it; a += (q - p); VP_CHECK(a == jt && std::addressof(*a) - root == want[static_cast<std::size_t>(q)], "elems/plus_assign", which << ": (b+" << p << ")+=" << (q - p) << " designates root position " << (std::addressof(*a) - root) << " expected " << want[static_cast<std::size_t>(q)]); }
					{ It a = it; a -= (p - q); VP_CHECK(a == jt && std::addressof(*a) - root == want[static_cast<std::size_t>(q)], "elems/minus_assign", which << ": (b+" << p << ")-=" << (p - q) << " designates root position " << (std::addressof(*a) - root) << " expected " << want[static_cast<std::size_t>(q)]); }
					{ It a = it - (p - q); VP_CHECK(a == jt && std::addressof(*a) - root == want[static_cast<std::size_t>(q)], "elems/minus", which << ": (b+" << p << ")-" << (p - q) << " designates root position " << (std::addressof(*a) - root) << " expected " << want[static_cast<std::size_t>(q)]); }
					{ It a = it + (q - p); VP_CHECK(a == jt && std::addressof(*a) - root == want[static_cast<std::size_t>(q)], "elems/plus_offset", which << ": (b+" << p << ")+" << (q - p) << " designates root position " << (std::addressof(*a) - root) << " expected " << want[static_cast<std::size_t>(q)]); }
				}
			}
		}
		{ // an iterator that belonged to a range of *another shape* (same static type), once assigned from an iterator of this range, is that iterator:
		  // it steps, jumps and subscripts with this range's extents
			using Elem = std::remove_cv_t<std::remove_reference_t<decltype(*b)>>;
			multi::array<Elem, D> other(other_extensions<D>(std::make_index_sequence<static_cast<std::size_t>(D)>{}));
			auto with_foreign = [&](auto&& oes) {
				if constexpr(std::is_same_v<decltype(oes.begin()), It>) {
					for(long p : ps) {
						if(p >= n) { continue; }
						It a = oes.begin() + (p % static_cast<long>(oes.size()));
						a = b + p;
						VP_CHECK(a == b + p && std::addressof(*a) - root == want[static_cast<std::size_t>(p)], "elems/reassigned", which << ": an iterator of another range assigned from begin+" << p << " does not designate that element");
						It f = a;
						for(long k = p; k < n; ++k, ++f) { VP_CHECK(std::addressof(*f) - root == want[static_cast<std::size_t>(k)], "elems/reassigned_forward", which << ": an iterator of another range assigned from begin+" << p << " and incremented to position " << k << " designates root position " << (std::addressof(*f) - root) << " expected " << want[static_cast<std::size_t>(k)]); }
						VP_CHECK(f == e, "elems/reassigned_forward_end", which << ": a re-assigned iterator does not reach end()");
						It g = a;
						for(long k = p; k > 0; --k) { --g; VP_CHECK(std::addressof(*g) - root == want[static_cast<std::size_t>(k - 1)], "elems/reassigned_backward", which << ": an iterator of another range assigned from begin+" << p << " and decremented to position " << (k - 1) << " designates root position " << (std::addressof(*g) - root) << " expected " << want[static_cast<std::size_t>(k - 1)]); }
						for(long q : ps) { if(q < n) { VP_CHECK(std::addressof(a[q - p]) - root == want[static_cast<std::size_t>(q)], "elems/reassigned_subscript", which << ": re-assigned (b+" << p << ")[" << (q - p) << "]"); It h = a; h += (q - p); VP_CHECK(std::addressof(*h) - root == want[static_cast<std::size_t>(q)], "elems/reassigned_plus_assign", which << ": re-assigned (b+" << p << ")+=" << (q - p)); } }
					}
					ctx.count("elements_reassignment_checked");
				}
			};
			with_foreign(other().elements());
			with_foreign(std::as_const(other)().elements());
		}
		ctx.count("elements_positions_checked", n);
	}

	template<class V, class I>
	void operator()(V& v, Model& m, I& interp) {
		constexpr int D = rank_of<V>;
		check_shape(v, m, "end");
		ctx.desc << " => "; m.print(ctx.desc);
		if(N == 0 && !known_mode()) {
			// the root owns no storage: end() of a view whose leading size is non-zero offsets the null data pointer (UB, recorded as a
			// known finding of C02); excluded by construction and counted
			ctx.count("excluded_null_root");
			ctx.label("null_root_excluded");
			return;
		}
		{
			auto b = v.begin(); auto e = v.end();
			iterator_laws(v, m, b, e, "begin()/end()");
			auto cb = std::as_const(v).begin(); auto ce = std::as_const(v).end();
			iterator_laws(v, m, cb, ce, "const begin()/end()");
			auto ccb = v.cbegin(); auto cce = v.cend();
			VP_CHECK(ccb == cb && cce == ce, "iter/cbegin", "cbegin()/cend() differ from const begin()/end()");
			// const and mutable iterators to one position compare equal
			long n = m.d[0].size;
			for(long p : positions(n, 6, sel)) {
				VP_CHECK((b + p) == (cb + p), "iter/const_mutable_equal", "begin()+" << p << " != cbegin()+" << p);
				VP_CHECK((cb + p) == (b + p), "iter/const_mutable_equal", "cbegin()+" << p << " != begin()+" << p);
			}
		}
		elements_laws(v, m, v.elements(), "elements()");
		elements_laws(v, m, std::as_const(v).elements(), "const elements()");
		// cursors: home() walks by ordinals
		if(!m.empty()) {
			long ord[D] = {};
			do {
				T const* p = addr_cursor(v.home(), ord, std::integral_constant<int, D>{});
				VP_CHECK(p - root == m.pos(ord), "cursor/position", "home()[o]... at root position " << (p - root) << " model " << m.pos(ord));
			} while(next_ord(m, ord));
		}
		ctx.nontrivial = !m.compact_rowmajor() && m.nelems() >= 2;
		if(m.empty()) { ctx.label("final_empty"); } else if(!m.compact_rowmajor()) { ctx.label("final_noncontiguous"); } else { ctx.label("final_contiguous"); }
		static char const* const dl[] = {"finalD0", "finalD1", "finalD2", "finalD3", "finalD4", "finalD5", "finalD6"};
		ctx.label(dl[D]);
		(void)interp;
	}
};

template<class Cfg, int D>
void run_c02_d(Input const& in, Ctx& ctx) {
	auto r = decode_root<D, Cfg::based>(in, ctx);
	with_root<Cfg, int, D>(r, [&](auto& root, Model m, int const* base, long N) {
		C02Fin<int> fin{base, N, ctx, in.head(11)};
		Interp<C02Fin<int>, Cfg::based> interp(in, ctx, fin);
		interp.null_root = (N == 0);
		check_shape(root, m, "construction");
		interp.step(root, m);
	});
}

template<class Cfg>
void run_c02(Input const& in, Ctx& ctx) {
	switch(in.head(1) % 4) {
		case 0: run_c02_d<Cfg, 1>(in, ctx); break;
		case 1: run_c02_d<Cfg, 2>(in, ctx); break;
		case 2: run_c02_d<Cfg, 3>(in, ctx); break;
		default: run_c02_d<Cfg, 4>(in, ctx); break;
	}
}

}  // namespace vp
