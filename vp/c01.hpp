// vp/c01.hpp — C01 case function, templated over a configuration (pointer family / index bases) so that
// C11 (fancy pointers), C19 (index bases) and C20 (assertion builds) replay literally the same programs.
#pragma once

#include "views.hpp"

#include <sanitizer/asan_interface.h>

namespace vp {

inline constexpr long kExtTable[32] = {1, 2, 3, 2, 4, 3, 2, 1, 5, 3, 4, 2, 6, 3, 7, 0, 2, 3, 4, 5, 1, 2, 3, 4, 2, 3, 5, 6, 1, 2, 3, 4};

struct CfgRaw {
	static constexpr char const* name = "raw";
	static constexpr bool based = false;
	template<class T> using alloc = std::allocator<T>;
	template<class T> using ptr = T*;
	template<class T> static T* make_ptr(T* p, long /*n*/) { return p; }
	static void release_ptr(void* /*p*/) {}
};
struct CfgBased : CfgRaw {
	static constexpr char const* name = "based";
	static constexpr bool based = true;
};

enum RootKind { RK_ARRAY, RK_ARRAY_CONST, RK_STATIC, RK_REF, RK_REF_CONST, RK_STATIC_CONST, NROOTKINDS };

// decoded root description
template<int D> struct RootSpec {
	long ext[D]; long base[D]; int kind; long N;
	multi::extensions_t<D> extensions() const {
		return std::apply([](auto... e) { return multi::extensions_t<D>{e...}; }, to_tuple(std::make_index_sequence<D>{}));
	}
	template<std::size_t... I> auto to_tuple(std::index_sequence<I...>) const { return std::make_tuple(multi::iextension{base[I], base[I] + ext[I]}...); }
	Model model() const {
		Model m; long st = 1;
		m.d.resize(D);
		for(int k = D - 1; k >= 0; --k) { m.d[static_cast<std::size_t>(k)] = Dim{base[k], ext[k], st}; st *= ext[k]; }
		return m;
	}
};

template<int D, bool Based>
RootSpec<D> decode_root(Input const& in, Ctx& ctx, int hoff = 0) {
	RootSpec<D> r{};
	r.kind = in.head(hoff + 0) % NROOTKINDS;
	r.N = 1;
	for(int k = 0; k < D; ++k) {
		r.ext[k] = kExtTable[in.head(hoff + 2 + k) % 32];
		r.base[k] = Based ? static_cast<long>(in.head(hoff + 6 + k) % 7) - 3 : 0;
		r.N *= r.ext[k];
	}
	static char const* const kn[] = {"array", "array const", "static_array", "array_ref", "array_ref const", "static_array const"};
	ctx.desc << kn[r.kind] << '<' << D << ">(";
	for(int k = 0; k < D; ++k) { if(k) { ctx.desc << ','; } if(Based) { ctx.desc << '{' << r.base[k] << ',' << (r.base[k] + r.ext[k]) << '}'; } else { ctx.desc << r.ext[k]; } }
	ctx.desc << ')';
	return r;
}

// run `body(root_lvalue, model, raw pointer to element 0, N)` on a freshly built root of the decoded kind
template<class Cfg, class T, int D, bool MutableOnly = false, class Body>
void with_root(RootSpec<D> const& r, Body&& body) {
	using Alloc = typename Cfg::template alloc<T>;
	auto x = r.extensions();
	Model m = r.model();
	auto fill = [&](auto& A) { if constexpr(std::is_constructible_v<T, long>) { auto* p = raw_ptr(A.data_elements()); for(long i = 0; i < r.N; ++i) { p[i] = static_cast<T>(i); } } else { (void)A; } };
	switch(r.kind) {
		case RK_ARRAY: { multi::array<T, D, Alloc> A(x); fill(A); body(A, m, raw_ptr(A.data_elements()), r.N); return; }
		case RK_ARRAY_CONST: if constexpr(!MutableOnly) { multi::array<T, D, Alloc> A(x); fill(A); body(std::as_const(A), m, raw_ptr(A.data_elements()), r.N); return; } [[fallthrough]];
		case RK_STATIC: { multi::static_array<T, D, Alloc> A(x); fill(A); body(A, m, raw_ptr(A.data_elements()), r.N); return; }
		case RK_STATIC_CONST: if constexpr(!MutableOnly) { multi::static_array<T, D, Alloc> A(x); fill(A); body(std::as_const(A), m, raw_ptr(A.data_elements()), r.N); return; } [[fallthrough]];
		default: {
			constexpr long G = 16;
			std::vector<T> buf(static_cast<std::size_t>(r.N + 2*G));
			T* p = buf.data() + G;
			if constexpr(std::is_constructible_v<T, long>) { for(long i = 0; i < r.N; ++i) { p[i] = static_cast<T>(i); } }
			ASAN_POISON_MEMORY_REGION(buf.data(), G*sizeof(T));
			ASAN_POISON_MEMORY_REGION(p + r.N, G*sizeof(T));
			struct Unpoison { std::vector<T>& b; ~Unpoison() { ASAN_UNPOISON_MEMORY_REGION(b.data(), b.size()*sizeof(T)); } } unp{buf};
			multi::array_ref<T, D, typename Cfg::template ptr<T>> R(x, Cfg::make_ptr(p, r.N));
			struct Release { T* q; ~Release() { Cfg::release_ptr(q); } } rel{p};
			if constexpr(MutableOnly) { body(R, m, p, r.N); } else { if(r.kind == RK_REF) { body(R, m, p, r.N); } else { body(std::as_const(R), m, p, r.N); } }
			return;
		}
	}
}

// ---- the C01 oracle at the end of the operation sequence
template<class T>
struct C01Fin {
	T const* root; long N; unsigned bk; Ctx& ctx; int rootD;
	template<class V, class I>
	void operator()(V& v, Model& m, I& interp) {
		constexpr int D = rank_of<V>;
		check_shape(v, m, "end");
		check_elements(v, m, root, N, ctx, "end");
		check_elements(std::as_const(v), m, root, N, ctx, "end(const)");
		// broadcasted: every index of the added leading dimension designates the source view
		if constexpr(D <= 4) {
			if(!m.empty()) {
				auto&& bc = v.broadcasted();
				long ks[3] = {0, 1, static_cast<long>(bk % 11U) - 3};
				for(long k : ks) {
					auto&& s = bc[k];
					Model mm = m;
					long sz[D]; lib_sizes(s, sz);
					for(int j = 0; j < D; ++j) { VP_CHECK(sz[j] == m.d[static_cast<std::size_t>(j)].size, "broadcast/sizes", "broadcasted()[" << k << "] dim " << j << " size " << sz[j] << " model " << m.d[static_cast<std::size_t>(j)].size); }
					// element identity
					long ord[D] = {}; long idx[D];
					do {
						for(int j = 0; j < D; ++j) { idx[j] = m.d[static_cast<std::size_t>(j)].first + ord[j]; }
						T const* p = addr_chain(s, idx);
						VP_CHECK(p - root == m.pos(ord), "broadcast/position", "broadcasted()[" << k << "] element at root position " << (p - root) << " model " << m.pos(ord));
					} while(next_ord(mm, ord));
				}
				ctx.count("broadcast_checked");
			}
		}
		// differential runs only (C11 replays this program over raw and over fancy pointers): the final view reinterpreted with an extra trailing dimension
		// (int as 2 shorts) has the view's extents plus {2} and designates the two halves of each designated element, whatever the pointer type
		if constexpr(D >= 2 && D <= 3 && std::is_same_v<T, int>) {  // (the D == 1 overload needs an ADL reinterpret_pointer_cast for the pointer type: a customisation point the harness pointers do not provide)
			if(ctx.want_transcript && !m.empty()) {
				auto&& rv = std::as_const(v).template reinterpret_array_cast<short>(2);
				constexpr int DX = D + 1;
				static_assert(rank_of<decltype(rv)> == DX);
				long sz[DX]; lib_sizes(rv, sz);
				for(int j = 0; j < D; ++j) { VP_CHECK(sz[j] == m.d[static_cast<std::size_t>(j)].size, "fancy/reinterpret_extents", "reinterpret_array_cast<short>(2): extent " << j << " is " << sz[j] << " model " << m.d[static_cast<std::size_t>(j)].size); }
				VP_CHECK(sz[D] == 2, "fancy/reinterpret_extents", "reinterpret_array_cast<short>(2): trailing extent is " << sz[D]);
				Model mx = m; mx.d.push_back(Dim{0, 2, 0});
				long o[DX] = {}; long idx[DX];
				do {
					for(int j = 0; j < D; ++j) { idx[j] = m.d[static_cast<std::size_t>(j)].first + o[j]; }
					idx[D] = o[D];
					auto const* p = addr_chain(rv, idx);
					auto const* want = reinterpret_cast<char const*>(root + m.pos(o)) + 2*o[D];
					VP_CHECK(reinterpret_cast<char const*>(p) == want, "fancy/reinterpret_position", "reinterpret_array_cast<short>(2): half " << o[D] << " of an element is not over that element's bytes");
				} while(next_ord(mx, o));
				ctx.count("reinterpret_extra_dimension_checked");
			}
		}
		ctx.nontrivial = interp.applied >= 2 && interp.layout_changing >= 1 && m.nelems() >= 2;
		ctx.desc << " => "; m.print(ctx.desc);
		if(m.empty()) { ctx.label("final_empty"); } else if(!m.compact_rowmajor()) { ctx.label("final_noncontiguous"); } else { ctx.label("final_contiguous"); }
		static char const* const dl[] = {"finalD0", "finalD1", "finalD2", "finalD3", "finalD4", "finalD5", "finalD6"};
		ctx.label(dl[D]);
		static char const* const nl[] = {"ops0", "ops1", "ops2", "ops3-4", "ops3-4", "ops5-8", "ops5-8", "ops5-8", "ops5-8", "ops9+", "ops9+", "ops9+", "ops9+", "ops9+"};
		ctx.label(nl[std::min(interp.applied, 13)]);
		if(ctx.want_transcript) { Txt t; t << "|D" << D; for(auto const& x : m.d) { t << ' ' << x.size; } ctx.transcript += t.s; }
	}
};

template<class Cfg, int D>
void run_c01_d(Input const& in, Ctx& ctx) {
	auto r = decode_root<D, Cfg::based>(in, ctx);
	bool has0 = false, has1 = false;
	for(int k = 0; k < D; ++k) { has0 |= r.ext[k] == 0; has1 |= r.ext[k] == 1; }
	if(has0) { ctx.label("root_has_size0"); }
	if(has1) { ctx.label("root_has_size1"); }
	static char const* const dl[] = {"", "rootD1", "rootD2", "rootD3", "rootD4"};
	ctx.label(dl[D]);
	with_root<Cfg, int, D>(r, [&](auto& root, Model m, int const* base, long N) {
		C01Fin<int> fin{base, N, in.head(10), ctx, D};
		Interp<C01Fin<int>, Cfg::based> interp(in, ctx, fin);
		interp.null_root = (N == 0);
		check_shape(root, m, "construction");
		interp.step(root, m);
	});
}

template<class Cfg>
void run_c01(Input const& in, Ctx& ctx) {
	switch(in.head(1) % 4) {
		case 0: run_c01_d<Cfg, 1>(in, ctx); break;
		case 1: run_c01_d<Cfg, 2>(in, ctx); break;
		case 2: run_c01_d<Cfg, 3>(in, ctx); break;
		default: run_c01_d<Cfg, 4>(in, ctx); break;
	}
}

}  // namespace vp
