// vp/machine.hpp — the stateful model of a pool of owning arrays shared by C04 (value semantics), C06 (reextent & co),
// C08 (construct once / destroy once / storage returned), C09 (fault enumeration) and C10 (allocator propagation).
#pragma once

#include "views.hpp"
#include "instr.hpp"

#include <memory>

#ifndef VP_HAS_ASSIGN_EXT_VAL
#define VP_HAS_ASSIGN_EXT_VAL 0  // array::assign(extensions, value) casts to a private base: does not compile on the pinned tree
#endif

namespace vp {

inline int val(int x) { return x; }
inline int val(long x) { return static_cast<int>(x); }
template<int F> int val(TrackedT<F> const& x) { return x.v; }
inline int val(Init const& x) { return x.v; }
template<class T> int default_val() { if constexpr(std::is_same_v<T, Init>) { return 77; } else { return 0; } }  // value of a value-initialised element
inline int val(Pod const& x) { return x.v; }

template<class T> T mk(int x) { if constexpr(std::is_same_v<T, Pod>) { return Pod{x}; } else { return T(x); } }

struct MV {  // model value: extents + elements in canonical order
	std::vector<long> ext; std::vector<int> v;
	long n() const { long r = 1; for(auto e : ext) { r *= e; } return r; }
};

template<int D, std::size_t... I>
multi::extensions_t<D> mk_ext(long const* e, std::index_sequence<I...>) { return multi::extensions_t<D>{multi::iextension{0, e[I]}...}; }
template<int D> multi::extensions_t<D> mk_ext(std::vector<long> const& e) { return mk_ext<D>(e.data(), std::make_index_sequence<static_cast<std::size_t>(D)>{}); }

constexpr long kMExt[8] = {1, 2, 3, 2, 0, 3, 4, 2};

enum MOp { O_CTOR_EXT, O_CTOR_EXT_VAL, O_CTOR_ILIST, O_CTOR_ITERS, O_CTOR_VIEW, O_CTOR_CONVERT, O_COPY_CTOR, O_MOVE_CTOR, O_COPY_ASSIGN, O_ASSIGN_VIEW,
           O_ASSIGN_CONVERT, O_ASSIGN_ILIST, O_MOVE_ASSIGN, O_SWAP, O_DECAY, O_WRITE, O_CLEAR, O_SELF_ASSIGN,
           O_REEXTENT, O_REEXTENT_VAL, O_REEXTENT_SAME, O_RESHAPE, O_ASSIGN_ITERS, O_ASSIGN_EMPTY, O_ASSIGN_EXT_VAL, O_REEXTENT_RVALUE,
           O_COPY_CTOR_ALLOC, O_MOVE_CTOR_ALLOC, O_DESTROY, O_THROUGH_VIEW, M_NOPS };
constexpr unsigned kOpsByModulo = O_THROUGH_VIEW;  // operation bytes outside [kEscape, kEscapeEnd) decode as byte % kOpsByModulo (as they always did); the bytes inside select the operation added later
constexpr unsigned kEscape = 232, kEscapeEnd = 250;  // [kEscape, kEscapeEnd): 18 of 256 byte values
inline char const* const mop_name[] = {"ctor(ext)", "ctor(ext,val)", "ctor{ilist}", "ctor(first,last)", "ctor(view)", "ctor(convertible)", "copy-ctor", "move-ctor", "copy-assign", "assign-view",
           "assign-convertible", "assign{ilist}", "move-assign", "swap", "decay", "write", "clear", "self-assign",
           "reextent", "reextent(val)", "reextent(same)", "reshape", "assign(first,last)", "assign{}", "assign(ext,val)", "move.reextent",
           "copy-ctor(alloc)", "move-ctor(alloc)", "destroy", "assign-through-view"};

constexpr unsigned long long bit(int o) { return 1ULL << o; }
constexpr unsigned long long kValueOps = bit(O_CTOR_EXT) | bit(O_CTOR_EXT_VAL) | bit(O_CTOR_ILIST) | bit(O_CTOR_ITERS) | bit(O_CTOR_VIEW) | bit(O_CTOR_CONVERT) | bit(O_COPY_CTOR) | bit(O_MOVE_CTOR) |
                                         bit(O_COPY_ASSIGN) | bit(O_ASSIGN_VIEW) | bit(O_ASSIGN_CONVERT) | bit(O_ASSIGN_ILIST) | bit(O_MOVE_ASSIGN) | bit(O_SWAP) | bit(O_DECAY) | bit(O_WRITE) | bit(O_CLEAR) | bit(O_SELF_ASSIGN) | bit(O_THROUGH_VIEW);
constexpr unsigned long long kResizeOps = bit(O_REEXTENT) | bit(O_REEXTENT_VAL) | bit(O_REEXTENT_SAME) | bit(O_RESHAPE) | bit(O_ASSIGN_ITERS) | bit(O_ASSIGN_EMPTY) | bit(O_ASSIGN_EXT_VAL) | bit(O_REEXTENT_RVALUE) |
                                          bit(O_CTOR_EXT) | bit(O_CTOR_EXT_VAL) | bit(O_CTOR_ILIST) | bit(O_ASSIGN_ILIST) | bit(O_WRITE) | bit(O_CLEAR) | bit(O_COPY_CTOR) | bit(O_COPY_ASSIGN) | bit(O_CTOR_ITERS);
constexpr unsigned long long kAllocOps = bit(O_COPY_CTOR_ALLOC) | bit(O_MOVE_CTOR_ALLOC);
constexpr unsigned long long kAllOps = kValueOps | kResizeOps | bit(O_DESTROY);

template<class T_, class Alloc_, int Flags_ = -1>
struct MCfg { using T = T_; using Alloc = Alloc_; static constexpr int flags = Flags_; static constexpr bool stateful = Flags_ >= 0; };

template<class Cfg, int D>
struct Machine {
	using T = typename Cfg::T;
	using Alloc = typename Cfg::Alloc;
	using Arr = multi::array<T, D, Alloc>;
	static constexpr int NS = 4;
	static constexpr bool tracked = is_tracked<T>::value;
	std::unique_ptr<Arr> slot[NS];
	MV model[NS];
	int alloc_id[NS] = {};   // expected get_allocator().id (stateful allocators)
	bool moved_from[NS] = {};
	bool alloc_flex[NS] = {};
	bool unknown[NS] = {};   // value unspecified after an injected fault (basic guarantee): re-read from the array
	Ctx& ctx;
	unsigned long long enabled = kValueOps;
	bool nt = false;
	bool faulted = false;
	bool tolerated_once = false;
	int fault_op = -1;
	bool fault_in_alloc_and_construct = false;
	long same_storage_ops = 0;

	Alloc alloc_of(int id) const { if constexpr(Cfg::stateful) { return Alloc(id); } else { (void)id; return Alloc{}; } }

	explicit Machine(Ctx& c, unsigned ids = 0) : ctx(c) {
		for(int i = 0; i < NS; ++i) {
			alloc_id[i] = Cfg::stateful ? 1 + static_cast<int>((ids >> i) & 1U) : 0;
			slot[i] = std::make_unique<Arr>(alloc_of(alloc_id[i]));
			model[i].ext.assign(static_cast<std::size_t>(D), 0);
		}
	}

	// ------------------------------------------------------------------------------------------------ invariant after every step
	void check_slot(int i, char const* after) {
		Arr const& A = *slot[i]; MV& m = model[i];
		if(unknown[i]) {  // after a fault: the array must be *valid*: its extents and its live elements agree; adopt its value
			long n = static_cast<long>(A.num_elements());
			VP_CHECK(n >= 0 && n < 100000, "fault/invalid_extents", "slot " << i << " after " << after << ": num_elements()=" << n);
			long sz[D]; lib_sizes(A, sz);
			m.ext.assign(sz, sz + D); m.v.clear();
			auto const* p = raw_ptr(A.data_elements());
			if(n > 0) { VP_CHECK(p != nullptr, "fault/null_data", "slot " << i << " has " << n << " elements but a null data pointer after " << after); }
			if constexpr(Cfg::stateful) { if(n > 0) { auto it = obs().blocks.find(p); VP_CHECK(it != obs().blocks.end() && static_cast<long>(it->second.n) == n, "fault/extents_vs_block", "slot " << i << " after " << after << ": reports " << n << " elements over a block that is " << (it == obs().blocks.end() ? std::string("not outstanding") : std::to_string(it->second.n) + " elements")); } }
			for(long j = 0; j < n; ++j) {
				if constexpr(tracked) { VP_CHECK(obs().alive.count(p + j) == 1, "fault/extents_vs_live_elements", "slot " << i << " after " << after << ": element " << j << " of " << n << " is not alive"); }
				m.v.push_back(val(p[j]));
			}
			if(n == 0) { m.ext.assign(static_cast<std::size_t>(D), 0); }
			unknown[i] = false;
			return;
		}
		VP_CHECK(static_cast<long>(A.num_elements()) == m.n(), "value/num_elements", "slot " << i << " after " << after << ": num_elements()=" << A.num_elements() << " model " << m.n());
		VP_CHECK(A.is_empty() == (A.size() == 0), "value/is_empty", "slot " << i << " after " << after);
		if constexpr(Cfg::stateful) {
			if((Cfg::flags & 2) != 0 && alloc_flex[i]) {
				// assignments that build an internal temporary (initializer list, iterator pair, view / convertible array of other extents) move-assign it:
				// with propagate_on_container_move_assignment the array ends with its own or with the temporary's default-constructed allocator; which one
				// depends on the branch taken, and no trait covers these assignments: both are accepted, the storage must agree with the reported one
				int const got = A.get_allocator().id;
				VP_CHECK(got == alloc_id[i] || got == 0, "alloc/identity", "slot " << i << " after " << after << ": get_allocator().id=" << got << " expected " << alloc_id[i] << " or 0");
				alloc_id[i] = got;
			}
			alloc_flex[i] = false;
			if((Cfg::flags & 8) == 0) VP_CHECK(A.get_allocator().id == alloc_id[i], "alloc/identity", "slot " << i << " after " << after << ": get_allocator().id=" << A.get_allocator().id << " expected " << alloc_id[i]);
		}
		if(m.n() == 0) { return; }
		long sz[D]; lib_sizes(A, sz);
		for(int k = 0; k < D; ++k) { VP_CHECK(sz[k] == m.ext[static_cast<std::size_t>(k)], "value/extents", "slot " << i << " after " << after << ": extent " << k << " is " << sz[k] << " model " << m.ext[static_cast<std::size_t>(k)]); }
		auto const* p = raw_ptr(A.data_elements());
		if constexpr(Cfg::stateful) {
			auto it = obs().blocks.find(p);
			VP_CHECK(it != obs().blocks.end(), "alloc/foreign_block", "slot " << i << " after " << after << ": storage is not an outstanding block of the observing allocator");
			VP_CHECK(static_cast<long>(it->second.n) == m.n(), "alloc/block_size", "slot " << i << " after " << after << ": block of " << it->second.n << " elements holds an array of " << m.n());
			if((Cfg::flags & 8) == 0) { VP_CHECK(it->second.id == alloc_id[i], "alloc/block_owner", "slot " << i << " after " << after << ": array with allocator " << alloc_id[i] << " holds a block of allocator " << it->second.id); }
		}
		for(long j = 0; j < m.n(); ++j) {
			if constexpr(tracked) { VP_CHECK(obs().alive.count(p + j) == 1, "value/dead_element", "slot " << i << " after " << after << ": element " << j << " is not alive"); }
			VP_CHECK(val(p[j]) == m.v[static_cast<std::size_t>(j)], "value/elements", "slot " << i << " after " << after << ": element " << j << " is " << val(p[j]) << " model " << m.v[static_cast<std::size_t>(j)]);
		}
		VP_CHECK(val(A.elements()[0]) == m.v.front() && val(A.elements()[m.n() - 1]) == m.v.back(), "value/elements_range", "slot " << i << " after " << after);
	}
	void check_all(char const* after) {
		if constexpr(tracked) { VP_CHECK(obs().errors.empty(), "lifetime/error", "after " << after << ": " << obs().errors.front()); }
		else { VP_CHECK(obs().errors.empty(), "alloc/error", "after " << after << ": " << obs().errors.front()); }
		for(int i = 0; i < NS; ++i) { check_slot(i, after); }
		for(int i = 0; i < NS; ++i) { for(int j = 0; j < i; ++j) {
			if(model[i].n() == 0 || model[j].n() == 0) { continue; }
			auto const* p = raw_ptr(slot[i]->data_elements()); auto const* q = raw_ptr(slot[j]->data_elements());
			VP_CHECK((p + model[i].n() <= q) || (q + model[j].n() <= p), "value/shared_storage", "slots " << j << " and " << i << " share storage after " << after);
		} }
		if(faulted && !tolerated_once) {
			long live = 0, blocks = 0; for(auto const& m : model) { live += m.n(); blocks += m.n() > 0 ? 1 : 0; }
			bool const stray_block = Cfg::stateful && static_cast<long>(obs().blocks.size()) == blocks + 1;
			bool const stray_elems = tracked && static_cast<long>(obs().alive.size()) > live;
			if(stray_block || stray_elems) { tolerated_once = tolerate_ctor_leak(); }
		}
		if constexpr(tracked) {
			long live = 0; for(auto const& m : model) { live += m.n(); }
			VP_CHECK(static_cast<long>(obs().alive.size()) == live, "lifetime/stray_elements", "after " << after << ": " << obs().alive.size() << " live elements but the arrays hold " << live << " (outstanding blocks: " << obs().blocks.size() << ")");
		}
		if constexpr(Cfg::stateful) {
			long blocks = 0; for(auto const& m : model) { blocks += m.n() > 0 ? 1 : 0; }
			VP_CHECK(static_cast<long>(obs().blocks.size()) == blocks, "alloc/stray_blocks", "after " << after << ": " << obs().blocks.size() << " outstanding blocks but " << blocks << " non-empty arrays");
		}
	}

	// Recorded known finding (C09, key alloc/stray_blocks): every constructor allocates in its member-initialiser list and constructs the elements in its
	// body, so an element that throws during construction leaks the block.  The same constructors run inside the assignments that build a temporary
	// (initializer list, iterator pair, view or convertible array of other extents, decay).  To keep searching behind it, exactly this symptom is
	// tolerated and counted: one stray block, holding no live element, after an injected *element* fault inside one of those operations.
	bool tolerate_ctor_leak() {
		if(known_mode() || !faulted) { return false; }
		unsigned const k = obs().fault_event_kind;
		if(!(k == 2 || k == 4 || k == 32)) { return false; }
		int const fc = obs().fault_context;
		switch(fc) {
			case O_CTOR_EXT: case O_CTOR_EXT_VAL: case O_CTOR_ILIST: case O_CTOR_ITERS: case O_CTOR_VIEW: case O_CTOR_CONVERT: case O_COPY_CTOR: case O_COPY_CTOR_ALLOC:   // (not O_MOVE_CTOR_ALLOC: the allocator-extended move constructor catches, gives the block back and rethrows)
			case O_ASSIGN_ILIST: case O_ASSIGN_ITERS: case O_ASSIGN_VIEW: case O_ASSIGN_CONVERT: case O_DECAY: break;
			default: return false;
		}
		// second recorded finding: construction from an iterator pair / nested initializer list of dimensionality >= 2 copies row by row and does not
		// roll back the rows built before the throwing one: their elements stay alive inside the leaked block (which may belong to an unobserved
		// temporary array with the default allocator)
		bool const rows = D >= 2 && (fc == O_CTOR_ILIST || fc == O_CTOR_ITERS || fc == O_ASSIGN_ILIST || fc == O_ASSIGN_ITERS);
		bool did = false;
		if constexpr(tracked) { if(rows) {
			std::vector<void const*> stray;
			for(auto const* e : obs().alive) {
				bool inside = false;
				for(int i = 0; i < NS; ++i) { if(model[i].n() > 0) { auto const* p = raw_ptr(slot[i]->data_elements()); if(e >= static_cast<void const*>(p) && e < static_cast<void const*>(p + model[i].n())) { inside = true; } } }
				if(!inside) { stray.push_back(e); }
			}
			for(auto const* e : stray) { obs().alive.erase(e); ctx.count("known_finding_rows_not_rolled_back_elements"); did = true; }
		} }
		for(auto it = obs().blocks.begin(); it != obs().blocks.end(); ++it) {
			bool owned = false;
			for(int i = 0; i < NS; ++i) { if(model[i].n() > 0 && static_cast<void const*>(raw_ptr(slot[i]->data_elements())) == it->first) { owned = true; } }
			if(owned) { continue; }
			auto const* p = static_cast<T const*>(it->first);
			for(std::size_t j = 0; j < it->second.n; ++j) { if constexpr(tracked) { if(obs().alive.count(p + j) != 0) { return did; } } }
			::operator delete(const_cast<void*>(it->first));
			obs().blocks.erase(it); ++obs().deallocs;
			ctx.count("known_finding_ctor_block_leak_tolerated");
			return true;
		}
		return did;
	}

	MV make_model(std::vector<long> const& e, int base, int step) const {
		MV m; m.ext = e; m.v.resize(static_cast<std::size_t>(m.n()));
		for(std::size_t j = 0; j < m.v.size(); ++j) { m.v[j] = (base + static_cast<int>(j)*step) % 50; }
		if(m.n() == 0) { m.ext.assign(static_cast<std::size_t>(D), 0); }
		return m;
	}
	std::vector<long> dec_ext(unsigned x, unsigned y) const {
		std::vector<long> e(static_cast<std::size_t>(D));
		unsigned z = x | (y << 8U);
		for(int k = 0; k < D; ++k) { e[static_cast<std::size_t>(k)] = kMExt[(z >> (3*k)) & 7U]; }
		if constexpr(D >= 2) {
			// one time in four: the extents of an existing array with the dimensions rotated or folded into the first one, i.e. the same number of elements in
			// another shape (the state in which "reuse the storage if the size matches" shortcuts go wrong)
			if(((z >> 14U) & 3U) == 3U) {
				auto const& o = model[(z >> 12U) & 3U].ext;
				long n = 1; for(long v : o) { n *= v; }
				if(n > 1) {
					if((z & 1U) != 0) { for(int k = 0; k < D; ++k) { e[static_cast<std::size_t>(k)] = o[static_cast<std::size_t>((k + 1) % D)]; } }
					else { e.assign(static_cast<std::size_t>(D), 1); e[(z >> 1U) % static_cast<unsigned>(D)] = n; }
				}
			}
		}
		return e;
	}
	// new extents = old +- small deltas per dimension (growing, shrinking, mixed, to/from empty)
	std::vector<long> delta_ext(std::vector<long> const& old, unsigned x, unsigned y) const {
		std::vector<long> e(static_cast<std::size_t>(D));
		unsigned z = x | (y << 8U);
		for(int k = 0; k < D; ++k) { static constexpr long dl[8] = {0, 1, -1, 2, -2, 0, 1, -1}; long o = old[static_cast<std::size_t>(k)]; if(o == 0) { o = kMExt[(z >> (3*k + 1)) & 7U]; } e[static_cast<std::size_t>(k)] = std::max<long>(0, std::min<long>(5, o + dl[(z >> (3*k)) & 7U])); }
		return e;
	}
	template<class U> multi::array<U, D> realise(MV const& m) const {
		multi::array<U, D> R(mk_ext<D>(m.ext));
		if(m.n() > 0) { auto* p = raw_ptr(R.data_elements()); for(long j = 0; j < m.n(); ++j) { p[j] = mk<U>(m.v[static_cast<std::size_t>(j)]); } }
		return R;
	}
	void set_contents(Arr& A, MV const& m) { if(m.n() > 0) { auto* p = raw_ptr(A.data_elements()); for(long j = 0; j < m.n(); ++j) { p[j] = mk<T>(m.v[static_cast<std::size_t>(j)]); } } }
	void print_ext(std::vector<long> const& e) { ctx.desc << '('; for(std::size_t k = 0; k < e.size(); ++k) { if(k) { ctx.desc << 'x'; } ctx.desc << e[k]; } ctx.desc << ')'; }
	void set_empty(int a) { model[a].ext.assign(static_cast<std::size_t>(D), 0); model[a].v.clear(); }

	template<class... As> std::unique_ptr<Arr> make(int id, As&&... as) {
		if constexpr(Cfg::stateful) { return std::make_unique<Arr>(std::forward<As>(as)..., alloc_of(id)); } else { (void)id; return std::make_unique<Arr>(std::forward<As>(as)...); }
	}

	// ------------------------------------------------------------------------------------------------ sink of a generated view of slot b
	struct Sink {
		Machine& M; int action; int a, b; unsigned variant;
		template<class V, class I>
		void operator()(V& v, Model& m, I& /*interp*/) {
			static_assert(rank_of<V> == D);
			MV want; want.ext.resize(static_cast<std::size_t>(D));
			for(int k = 0; k < D; ++k) { want.ext[static_cast<std::size_t>(k)] = m.d[static_cast<std::size_t>(k)].size; }
			if(!m.empty()) { long ord[D] = {}; do { want.v.push_back(M.model[b].v[static_cast<std::size_t>(m.pos(ord))]); } while(next_ord(m, ord)); }
			else { want.ext.assign(static_cast<std::size_t>(D), 0); }
			bool noncontig = !m.empty() && !m.compact_rowmajor();
			M.ctx.desc << " => "; m.print(M.ctx.desc);
			if(action == O_CTOR_VIEW) {
				if constexpr(Cfg::stateful) { M.slot[a] = (variant & 1U) ? std::make_unique<Arr>(v, M.alloc_of(M.alloc_id[a])) : std::make_unique<Arr>(std::as_const(v), M.alloc_of(M.alloc_id[a])); }
				else { M.slot[a] = (variant & 1U) ? std::make_unique<Arr>(v) : std::make_unique<Arr>(std::as_const(v)); }
				if(noncontig) { M.nt = true; }
			} else if(action == O_ASSIGN_VIEW) {
				if(M.model[a].ext != want.ext || noncontig) { M.nt = true; }
				M.unknown[a] = true; M.alloc_flex[a] = true;
				if(variant & 1U) { *M.slot[a] = v; } else { *M.slot[a] = std::as_const(v); }
				M.unknown[a] = false;
				if constexpr(is_owning<std::remove_const_t<V>>::value) {  // no view operation was applied: this was a plain copy assignment from the array
					M.alloc_flex[a] = false;
					if(Cfg::stateful && (Cfg::flags & 1) != 0) { M.alloc_id[a] = M.alloc_id[b]; }
				}
			} else {  // decay: the result is a plain array with the default allocator of the element pointer
				if(noncontig) { M.nt = true; }
				if constexpr(std::is_same_v<Alloc, std::allocator<T>>) {
					switch(variant % 3U) {
						case 0: M.slot[a] = std::make_unique<Arr>(+v); break;
						case 1: M.slot[a] = std::make_unique<Arr>(v.decay()); break;
						default: { auto c = +std::as_const(v); static_assert(std::is_same_v<decltype(c), Arr>); M.unknown[a] = true; *M.slot[a] = std::move(c); M.unknown[a] = false; break; }
					}
				} else {
					auto c = +v;
					M.unknown[a] = true; *M.slot[a] = c; M.unknown[a] = false;  // assignment from an array of another allocator type
				}
			}
			M.model[a] = want;
		}
	};

	void with_view(int action, int a, int b, Input const& in, int rec) {
		Input vin; vin.H = 0; vin.R = 4;  // the four trailing bytes of the record are the view program (one operation each)
		for(int j = 4; j < 8; ++j) { unsigned x = in.op(rec, j); if(x == 0) { continue; } vin.bytes.insert(vin.bytes.end(), {static_cast<std::uint8_t>(x), static_cast<std::uint8_t>(x*31U + in.op(rec, 3)), static_cast<std::uint8_t>(x*17U + 3U), static_cast<std::uint8_t>(x >> 2U)}); }
		Sink sink{*this, action, a, b, in.op(rec, 3)};
		Interp<Sink, false, 5, true> interp(vin, ctx, sink);
		Model m; long st = 1; m.d.resize(D);
		for(int k = D - 1; k >= 0; --k) { m.d[static_cast<std::size_t>(k)] = Dim{0, model[b].ext[static_cast<std::size_t>(k)], st}; st *= model[b].ext[static_cast<std::size_t>(k)]; }
		interp.null_root = (model[b].n() == 0);
		Arr& B = *slot[b];
		check_shape(B, m, "view root");
		if((in.op(rec, 3) & 2U) != 0) { interp.step(std::as_const(B), m); } else { interp.step(B, m); }
	}

	// nested initializer lists of a few fixed shapes.  The initializer_list object is built first, with fault injection paused: an exception thrown
	// while a nested braced list is being materialised leaves already built backing-array temporaries undestroyed (observed with g++ 12 and
	// clang 14; a compiler matter, not the library's), so only the library call itself is exposed to faults.
	void from_ilist(int a, bool assign, unsigned x) {
		// the initializer-list constructors are declared with rows of the default allocator, the assignments with rows of the array's own allocator
		if(assign) { from_ilist_<typename Arr::value_type>(a, true, x); } else { from_ilist_<typename multi::static_array<T, D>::value_type>(a, false, x); }
	}
	template<class VT>
	void from_ilist_(int a, bool assign, unsigned x) {
		int s = static_cast<int>(x % 40U);
		MV m;
		auto t = [](int q) { return mk<T>(q); };
		auto go = [&](std::initializer_list<VT> il) {
			obs().paused = false;
			if constexpr(std::is_same_v<VT, typename Arr::value_type>) { if(assign) { *slot[a] = il; return; } }
			if constexpr(std::is_same_v<VT, typename multi::static_array<T, D>::value_type>) { if(!assign) { slot[a].reset(new Arr(il)); return; } }
		};
		struct Unpause { ~Unpause() { obs().paused = false; } } unpause;
		obs().paused = true;
		if constexpr(D == 1) {
			switch(x % 3U) {
				case 0: { m.ext = {3}; m.v = {s, s + 1, s + 2}; std::initializer_list<VT> il = {t(s), t(s + 1), t(s + 2)}; go(il); break; }
				case 1: { m.ext = {2}; m.v = {s, s + 7}; std::initializer_list<VT> il = {t(s), t(s + 7)}; go(il); break; }
				default: { m.ext = {0}; std::initializer_list<VT> il = {}; go(il); break; }
			}
		} else if constexpr(D == 2) {
			switch(x % 3U) {
				case 0: { m.ext = {2, 3}; m.v = {s, s + 1, s + 2, s + 3, s + 4, s + 5}; std::initializer_list<VT> il = {{t(s), t(s + 1), t(s + 2)}, {t(s + 3), t(s + 4), t(s + 5)}}; go(il); break; }
				case 1: { m.ext = {3, 1}; m.v = {s, s + 1, s + 2}; std::initializer_list<VT> il = {{t(s)}, {t(s + 1)}, {t(s + 2)}}; go(il); break; }
				default: { m.ext = {0, 0}; std::initializer_list<VT> il = {}; go(il); break; }
			}
		} else if constexpr(D == 3) {
			m.ext = {2, 1, 2}; m.v = {s, s + 1, s + 2, s + 3};
			std::initializer_list<VT> il = {{{t(s), t(s + 1)}}, {{t(s + 2), t(s + 3)}}}; go(il);
		} else {
			(void)s; (void)t;
			m.ext.assign(static_cast<std::size_t>(D), 0);
			std::initializer_list<VT> il = {}; go(il);
		}
		if(assign && model[a].ext != m.ext) { nt = true; }
		if(!assign) { alloc_id[a] = 0; }  // initializer-list constructors use a default-constructed allocator
		model[a] = m;
	}

	// a range of rows (D>1) or elements (D==1) with the contents of m
	template<class F> void with_rows(MV const& m, F&& f) {
		if constexpr(D == 1) {
			std::vector<T> src; src.reserve(m.v.size()); for(int x : m.v) { src.push_back(mk<T>(x)); }
			f(src);
		} else {
			MV sub; sub.ext.assign(m.ext.begin() + 1, m.ext.end());
			long sn = sub.n();
			std::vector<multi::array<T, D - 1>> src; src.reserve(static_cast<std::size_t>(m.ext[0]));
			for(long i = 0; i < m.ext[0]; ++i) {
				multi::array<T, D - 1> S(mk_ext<D - 1>(sub.ext));
				if(sn > 0) { auto* p = raw_ptr(S.data_elements()); for(long j = 0; j < sn; ++j) { p[j] = mk<T>(m.v[static_cast<std::size_t>(i*sn + j)]); } }
				src.push_back(std::move(S));
			}
			f(src);
		}
	}

	bool needs_no_storage(unsigned op, int a, int b) const {
		switch(op) {
			case O_COPY_ASSIGN: return model[a].ext == model[b].ext && !(Cfg::stateful && (Cfg::flags & 1) != 0 && (Cfg::flags & 8) == 0 && alloc_id[a] != alloc_id[b]);  // (a propagating unequal allocator must reallocate)
			case O_MOVE_ASSIGN: return !Cfg::stateful || (Cfg::flags & (2 | 8)) != 0 || alloc_id[a] == alloc_id[b];  // (unequal non-propagating allocators must move element-wise)
			case O_MOVE_CTOR: case O_SWAP: case O_WRITE: case O_SELF_ASSIGN: case O_CLEAR: case O_REEXTENT_SAME: case O_RESHAPE: case O_THROUGH_VIEW: return true;
			default: return false;
		}
	}

	// one operation; may throw (injected faults)
	void do_op(Input const& in, int r) {
		unsigned op = (in.op(r, 0) >= kEscape && in.op(r, 0) < kEscapeEnd) ? static_cast<unsigned>(O_THROUGH_VIEW) : in.op(r, 0) % kOpsByModulo;
		if((enabled & bit(static_cast<int>(op))) == 0) { ctx.count("ops_not_enabled"); return; }
		int a = in.op(r, 1) % NS, b = in.op(r, 2) % NS;
		unsigned x = in.op(r, 3);
		if(a == b && op != O_SELF_ASSIGN) { b = (b + 1) % NS; }
		ctx.desc << " | " << mop_name[op] << ' ' << a;
		long const allocs0 = obs().allocs;
		bool const no_storage = needs_no_storage(op, a, b);
		switch(op) {
			case O_CTOR_EXT: {
				auto e = dec_ext(x, in.op(r, 4)); print_ext(e);
				slot[a] = make(alloc_id[a], mk_ext<D>(e));
				if constexpr(!std::is_trivially_default_constructible_v<T>) { MV m; m.ext = e; m.v.assign(static_cast<std::size_t>(m.n()), default_val<T>()); if(m.n() == 0) { m.ext.assign(static_cast<std::size_t>(D), 0); } model[a] = m; }  // value-initialised
				else {
					if constexpr(Cfg::stateful) {  // trivial elements must not be written by a sizing constructor: the allocator's paint is still there
						long n = 1; for(auto q : e) { n *= q; }
						auto const* p = raw_ptr(slot[a]->data_elements());
						for(long j = 0; j < n; ++j) { VP_CHECK(val(p[j]) == kPaintInt, "trivial/written", "sizing constructor wrote element " << j << " of a trivially default-constructible type"); }
					}
					model[a] = make_model(e, in.op(r, 5), 1); set_contents(*slot[a], model[a]);  // trivial elements are unspecified: written by the harness
				}
				break;
			}
			case O_CTOR_EXT_VAL: {
				auto e = dec_ext(x, in.op(r, 4)); print_ext(e); int v0 = in.op(r, 5) % 50;
				slot[a] = make(alloc_id[a], mk_ext<D>(e), mk<T>(v0));
				MV m; m.ext = e; m.v.assign(static_cast<std::size_t>(m.n()), v0); if(m.n() == 0) { m.ext.assign(static_cast<std::size_t>(D), 0); } model[a] = m;
				break;
			}
			case O_CTOR_ILIST: from_ilist(a, false, x); break;
			case O_CTOR_ITERS: case O_ASSIGN_ITERS: {
				// precondition read from the callers (the initializer-list constructor checks size()==0 first): the range is not empty, *first is dereferenced;
				// zero-element results iterate a null data pointer (null-root family, see known_findings)
				auto e = dec_ext(x, in.op(r, 4)); for(auto& ek : e) { if(ek == 0) { ek = 1; } }
				print_ext(e);
				MV m = make_model(e, in.op(r, 5), 3);
				if(op == O_CTOR_ITERS) { with_rows(m, [&](auto& src) { slot[a] = make(alloc_id[a], src.begin(), src.end()); }); }
				else { if(model[a].ext != m.ext) { nt = true; } unknown[a] = true; alloc_flex[a] = true; with_rows(m, [&](auto& src) { slot[a]->assign(src.begin(), src.end()); }); unknown[a] = false; }
				model[a] = m;
				break;
			}
			case O_CTOR_VIEW: case O_ASSIGN_VIEW: case O_DECAY: {
				ctx.desc << " <- view of " << b << ':';
				if(op == O_ASSIGN_VIEW && moved_from[a]) { nt = true; }
				with_view(static_cast<int>(op), a, b, in, r);
				break;
			}
			case O_CTOR_CONVERT: case O_ASSIGN_CONVERT: {
				ctx.desc << " <- " << b;
				using U = std::conditional_t<std::is_same_v<T, int>, long, int>;
				if constexpr(std::is_same_v<T, Pod>) { ctx.count("ops_skipped"); break; }
				else {
					auto other = realise<U>(model[b]);
					if(op == O_CTOR_CONVERT) { slot[a] = make(alloc_id[a], other); }
					else { if(model[a].ext != model[b].ext) { nt = true; } unknown[a] = true; alloc_flex[a] = true; *slot[a] = other; unknown[a] = false; }
					model[a] = model[b];
				}
				break;
			}
			case O_COPY_CTOR: {
				ctx.desc << " <- " << b;
				slot[a] = std::make_unique<Arr>(*slot[b]); model[a] = model[b];
				alloc_id[a] = alloc_id[b];  // select_on_container_copy_construction keeps the id (and counts the call)
				if constexpr(Cfg::stateful) { VP_CHECK(slot[a]->get_allocator().socc == slot[b]->get_allocator().socc + 1, "alloc/select_on_copy", "copy construction did not use select_on_container_copy_construction"); }
				break;
			}
			case O_COPY_CTOR_ALLOC: {
				if constexpr(Cfg::stateful) {
					int id = 1 + static_cast<int>(x & 1U); ctx.desc << " <- " << b << " alloc" << id;
					slot[a] = std::make_unique<Arr>(*slot[b], alloc_of(id)); model[a] = model[b]; alloc_id[a] = id;
				}
				break;
			}
			case O_MOVE_CTOR: case O_MOVE_CTOR_ALLOC: {
				ctx.desc << " <- " << b;
				auto const* before = raw_ptr(slot[b]->data_elements()); long nb = model[b].n();
				long ops0 = obs().copies_and_moves() + obs().ctor_default + obs().ctor_value;
				int id = alloc_id[b];
				if(op == O_MOVE_CTOR) { slot[a] = std::make_unique<Arr>(std::move(*slot[b])); }
				else if constexpr(Cfg::stateful) { id = 1 + static_cast<int>(x & 1U); ctx.desc << " alloc" << id;
					unknown[b] = true; slot[a] = std::make_unique<Arr>(std::move(*slot[b]), alloc_of(id)); unknown[b] = false; }
				else { break; }
				long ops1 = obs().copies_and_moves() + obs().ctor_default + obs().ctor_value;
				bool const may_steal = (op == O_MOVE_CTOR) || id == alloc_id[b] || (Cfg::flags & 8) != 0;
				if(may_steal) {
					VP_CHECK(ops1 == ops0, "value/move_copies", "move construction performed " << (ops1 - ops0) << " element operations");
					if(nb > 0) { VP_CHECK(raw_ptr(slot[a]->data_elements()) == before, "value/move_buffer", "move construction did not transfer the buffer"); }
				}
				model[a] = model[b]; alloc_id[a] = id; set_empty(b); moved_from[b] = true;
				break;
			}
			case O_COPY_ASSIGN: {
				ctx.desc << " <- " << b;
				if(model[a].ext != model[b].ext) { nt = true; }
				if(moved_from[a]) { nt = true; }
				unknown[a] = true; *slot[a] = *slot[b]; unknown[a] = false; model[a] = model[b];
				if(Cfg::stateful && (Cfg::flags & 1) != 0) { alloc_id[a] = alloc_id[b]; }
				break;
			}
			case O_SELF_ASSIGN: {
				auto const* before = raw_ptr(slot[a]->data_elements());
				auto& ref = *slot[a];
				*slot[a] = ref;
				VP_CHECK(raw_ptr(slot[a]->data_elements()) == before, "value/self_assign", "self-assignment reallocated");
				break;
			}
			case O_ASSIGN_ILIST: unknown[a] = true; alloc_flex[a] = true; from_ilist(a, true, x); unknown[a] = false; break;
			case O_ASSIGN_EMPTY: { *slot[a] = {}; set_empty(a); break; }
			case O_MOVE_ASSIGN: {
				ctx.desc << " <- " << b;
				bool const equal_allocs = !Cfg::stateful || alloc_id[a] == alloc_id[b] || (Cfg::flags & 8) != 0;
				bool const pocma = Cfg::stateful && (Cfg::flags & 2) != 0;
				auto const* before = raw_ptr(slot[b]->data_elements()); long nb = model[b].n();
				long ops0 = obs().copies_and_moves() + obs().ctor_default + obs().ctor_value;
				if(moved_from[a]) { nt = true; }
				unknown[a] = unknown[b] = true;  // after a failure both keep some valid, unspecified value
				*slot[a] = std::move(*slot[b]);
				unknown[a] = unknown[b] = false;
				long ops1 = obs().copies_and_moves() + obs().ctor_default + obs().ctor_value;
				if(equal_allocs || pocma) {
					VP_CHECK(ops1 == ops0, "value/move_copies", "move assignment performed " << (ops1 - ops0) << " element constructions/assignments");
					if(nb > 0) { VP_CHECK(raw_ptr(slot[a]->data_elements()) == before, "value/move_buffer", "move assignment did not transfer the buffer"); }
				}
				if(pocma) { alloc_id[a] = alloc_id[b]; }
				model[a] = model[b]; set_empty(b); moved_from[b] = true;
				break;
			}
			case O_SWAP: {
				ctx.desc << " <-> " << b;
				bool const equal_allocs = !Cfg::stateful || alloc_id[a] == alloc_id[b] || (Cfg::flags & 8) != 0;
				bool const pocs = Cfg::stateful && (Cfg::flags & 4) != 0;
				if(!equal_allocs && !pocs) { ctx.count("excluded_swap_unequal_allocators_is_UB"); ctx.desc << " (excluded: UB for every standard container)"; break; }
				auto const* pa = raw_ptr(slot[a]->data_elements()); auto const* pb = raw_ptr(slot[b]->data_elements());
				if((x & 1U) != 0) { slot[a]->swap(*slot[b]); } else { using std::swap; swap(*slot[a], *slot[b]); }
				if(model[a].n() > 0 && model[b].n() > 0) { VP_CHECK(raw_ptr(slot[a]->data_elements()) == pb && raw_ptr(slot[b]->data_elements()) == pa, "value/swap_buffers", "swap did not exchange the buffers"); }
				std::swap(model[a], model[b]); std::swap(moved_from[a], moved_from[b]);
				if(pocs) { std::swap(alloc_id[a], alloc_id[b]); }
				break;
			}
			case O_WRITE: {
				if(model[a].n() == 0) { break; }
				long k = static_cast<long>(x | (static_cast<unsigned>(in.op(r, 4)) << 8U)) % model[a].n();
				int nv = in.op(r, 5) % 50;
				ctx.desc << " [" << k << "]=" << nv;
				if((in.op(r, 6) & 1U) != 0) { slot[a]->elements()[k] = mk<T>(nv); } else { raw_ptr(slot[a]->data_elements())[k] = mk<T>(nv); }
				model[a].v[static_cast<std::size_t>(k)] = nv;
				break;
			}
			case O_CLEAR: { slot[a]->clear(); set_empty(a); break; }
			case O_DESTROY: { slot[a] = std::make_unique<Arr>(alloc_of(alloc_id[a])); set_empty(a); break; }
			case O_REEXTENT: case O_REEXTENT_VAL: case O_REEXTENT_RVALUE: {
				auto e = delta_ext(model[a].ext, x, in.op(r, 4)); print_ext(e);
				int fillv = in.op(r, 5) % 50;
				MV m; m.ext = e; long n = m.n(); m.v.assign(static_cast<std::size_t>(n), 0);
				MV const& old = model[a];
				bool const with_val = op == O_REEXTENT_VAL;
				bool const keeps = op != O_REEXTENT_RVALUE;
				std::vector<char> fresh(static_cast<std::size_t>(n), 1);
				long common = 0;
				if(n > 0) {
					long t[D] = {}; long j = 0;
					do {
						bool inold = old.n() > 0; long oj = 0;
						for(int k = 0; k < D && inold; ++k) { if(t[k] >= old.ext[static_cast<std::size_t>(k)]) { inold = false; } else { oj = oj*old.ext[static_cast<std::size_t>(k)] + t[k]; } }
						if(inold && keeps) { m.v[static_cast<std::size_t>(j)] = old.v[static_cast<std::size_t>(oj)]; fresh[static_cast<std::size_t>(j)] = 0; ++common; }
						else { m.v[static_cast<std::size_t>(j)] = with_val ? fillv : default_val<T>(); }
						++j;
						int k = D - 1; for(; k >= 0; --k) { if(++t[k] < e[static_cast<std::size_t>(k)]) { break; } t[k] = 0; }
						if(k < 0) { break; }
					} while(true);
				}
				if(old.n() > 0 && n > 0 && common < old.n() && common < n && common > 0) { nt = true; }
				bool const same = (old.n() == 0 && n == 0) || old.ext == e;
				auto const* before = raw_ptr(slot[a]->data_elements());
				unknown[a] = true;
				if(op == O_REEXTENT) { slot[a]->reextent(mk_ext<D>(e)); }
				else if(op == O_REEXTENT_VAL) { slot[a]->reextent(mk_ext<D>(e), mk<T>(fillv)); }
				else { std::move(*slot[a]).reextent(mk_ext<D>(e)); }
				unknown[a] = false;
				if(same && n > 0) { VP_CHECK(raw_ptr(slot[a]->data_elements()) == before, "reextent/noop_moved_storage", "reextent to the current extents changed the storage"); }  // (storage identity is meaningless for zero elements)
				if(n == 0) { m.ext.assign(static_cast<std::size_t>(D), 0); }
				if(!with_val && std::is_trivially_default_constructible_v<T> && !same) {
					// new elements of a trivially default-constructible type are unspecified: not read; (C08) they must not have been written either
					auto* p = raw_ptr(slot[a]->data_elements());
					for(long j = 0; j < n; ++j) { if(fresh[static_cast<std::size_t>(j)] != 0) {
						if constexpr(Cfg::stateful) { VP_CHECK(val(p[j]) == kPaintInt, "trivial/written", "reextent without a value wrote new element " << j << " of a trivially default-constructible type"); }
						p[j] = mk<T>(m.v[static_cast<std::size_t>(j)] = (fillv + static_cast<int>(j)) % 50);
					} }
				}
				if(same) { m = model[a]; }
				model[a] = m;
				break;
			}
			case O_REEXTENT_SAME: {
				if(model[a].n() == 0) { break; }
				auto const* before = raw_ptr(slot[a]->data_elements());
				auto it = slot[a]->elements().begin();
				auto const* e0 = std::addressof(*it);
				if((x & 1U) != 0) { slot[a]->reextent(mk_ext<D>(model[a].ext)); } else { slot[a]->reextent(mk_ext<D>(model[a].ext), mk<T>(7)); }
				VP_CHECK(raw_ptr(slot[a]->data_elements()) == before && std::addressof(*it) == e0, "reextent/noop_moved_storage", "reextent to the current extents invalidated the storage or an iterator");
				break;
			}
			case O_RESHAPE: {
				if(model[a].n() == 0) { break; }
				std::vector<long> e = model[a].ext;
				if(D >= 2) { switch(x % 3U) { case 0: std::rotate(e.begin(), e.begin() + 1, e.end()); break; case 1: e[1] *= e[0]; e[0] = 1; break; default: e[0] *= e[static_cast<std::size_t>(D - 1)]; e[static_cast<std::size_t>(D - 1)] = 1; break; } }
				print_ext(e);
				auto const* before = raw_ptr(slot[a]->data_elements());
				slot[a]->reshape(mk_ext<D>(e));
				VP_CHECK(raw_ptr(slot[a]->data_elements()) == before, "reshape/moved_storage", "reshape changed the storage");
				model[a].ext = e;
				break;
			}
			case O_THROUGH_VIEW: {  // assignment *through* views of two arrays of equal extents: deep, element by element, never any storage
				ctx.desc << " <- " << b;
				if(model[a].n() == 0 || model[a].ext != model[b].ext) { ctx.count("ops_skipped"); ctx.desc << " (extents differ: skipped)"; break; }
				auto const* before = raw_ptr(slot[a]->data_elements());
				unsigned const form = x % 4U;
				bool whole = true; long row_a = 0, row_b = 0, rown = model[a].n();
				if(form == 3 && D >= 2) { whole = false; rown = model[a].n()/model[a].ext[0]; row_a = static_cast<long>(in.op(r, 4)) % model[a].ext[0]; row_b = static_cast<long>(in.op(r, 5)) % model[b].ext[0]; }
				static char const* const fn[] = {" A() = B()", " A.elements() = B.elements()", " A() = as_const(B)()", " A[i] = B[j]"};
				ctx.desc << fn[(form == 3 && D < 2) ? 0 : form];
				unknown[a] = true;
				if(form == 1) { slot[a]->elements() = std::as_const(*slot[b]).elements(); }
				else if(form == 2) { (*slot[a])() = std::as_const(*slot[b])(); }
				else if(!whole) { if constexpr(D >= 2) { (*slot[a])[row_a] = (*slot[b])[row_b]; } }
				else { (*slot[a])() = (*slot[b])(); }
				unknown[a] = false;
				VP_CHECK(raw_ptr(slot[a]->data_elements()) == before, "value/view_assign_rebound", "assignment through a view changed the storage of the array");
				if(whole) { model[a].v = model[b].v; }
				else { for(long j = 0; j < rown; ++j) { model[a].v[static_cast<std::size_t>(row_a*rown + j)] = model[b].v[static_cast<std::size_t>(row_b*rown + j)]; } }
				nt = true;
				break;
			}
			case O_ASSIGN_EXT_VAL: {
				auto e = delta_ext(model[a].ext, x, in.op(r, 4)); print_ext(e); int v0 = in.op(r, 5) % 50;
#if VP_HAS_ASSIGN_EXT_VAL
				unknown[a] = true; slot[a]->assign(mk_ext<D>(e), mk<T>(v0)); unknown[a] = false;
#else
				ctx.count("ops_skipped_assign_ext_val_does_not_compile"); ctx.desc << " (array::assign(extensions, value) does not instantiate on the pinned tree: skipped)"; break;
#endif
				MV m; m.ext = e; m.v.assign(static_cast<std::size_t>(m.n()), v0); if(m.n() == 0) { m.ext.assign(static_cast<std::size_t>(D), 0); } model[a] = m;
				break;
			}
			default: break;
		}
		if(op != O_MOVE_CTOR && op != O_MOVE_ASSIGN && op != O_SWAP && op != O_MOVE_CTOR_ALLOC) { moved_from[a] = false; }
		if(Cfg::stateful && no_storage) { ++same_storage_ops; VP_CHECK(obs().allocs == allocs0, "alloc/needless_allocation", mop_name[op] << " needs no new storage but allocated " << (obs().allocs - allocs0) << " block(s)"); }
	}

	void run(Input const& in) {
		try { run_(in); }
		catch(Fail const&) { for(auto& s : slot) { (void)s.release(); } throw; }  // an array found invalid must not be destroyed while unwinding
	}
	void run_(Input const& in) {
		for(int r = 0; r < in.nops(); ++r) {
			unsigned op = (in.op(r, 0) >= kEscape && in.op(r, 0) < kEscapeEnd) ? static_cast<unsigned>(O_THROUGH_VIEW) : in.op(r, 0) % kOpsByModulo;
			try {
				obs().context = static_cast<int>(op);
				do_op(in, r);
				obs().context = -1;
			} catch(InjectedFault const&) {
				note_fault(op, r);
			} catch(std::bad_alloc const&) {
				VP_CHECK(obs().fault_fired, "fault/unexpected_bad_alloc", "bad_alloc without an injected fault");
				note_fault(op, r);
			}
			check_all(mop_name[op]);
		}
		for(auto& s : slot) { s.reset(); }   // everything dies: nothing outstanding
		VP_CHECK(obs().errors.empty(), "lifetime/error", "at destruction: " << obs().errors.front());
		if constexpr(tracked) { VP_CHECK(obs().alive.empty(), "lifetime/leak", obs().alive.size() << " elements still alive after all arrays died"); }
		if constexpr(Cfg::stateful) { VP_CHECK(obs().blocks.empty(), "alloc/leak", obs().blocks.size() << " block(s) never returned to the allocator"); VP_CHECK(obs().allocs == obs().deallocs, "alloc/balance", "allocations " << obs().allocs << " deallocations " << obs().deallocs); }
	}
	void note_fault(unsigned op, int r) {
		faulted = true; fault_op = static_cast<int>(op);
		ctx.desc << " !fault(" << obs().fault_kind << ")";
		(void)r;
		// the operation did not complete: a slot under assignment keeps *some* valid value (basic guarantee) - check_slot re-reads it;
		// a slot under construction keeps its previous array (the failed constructor must leave nothing behind)
	}
};

}  // namespace vp
