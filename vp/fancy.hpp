// vp/fancy.hpp — user-defined random-access pointer-like types for C11 (DESIGN 3.2)
//   off_ptr<T> : minimal fancy pointer: offset from a global arena base, explicit construction only, no conversion to or from T*,
//                proxy-free reference (T&)
//   chk_ptr<T> : provenance / bounds tracking pointer: (block id, index); dereference checks liveness and bounds of the block,
//                arithmetic and comparison across blocks are recorded
#pragma once

#include <cstddef>
#include <cstdint>
#include <iterator>
#include <map>
#include <memory>
#include <new>
#include <string>
#include <type_traits>
#include <vector>

namespace vp {

inline std::vector<std::string>& fancy_errors() { static std::vector<std::string> e; return e; }
inline void fancy_error(std::string s) { if(fancy_errors().size() < 20) { fancy_errors().push_back(std::move(s)); } }

// ------------------------------------------------------------------------------------------------ off_ptr
inline char* arena_base() { static char base[16]; return base; }  // offsets are measured from an unrelated address: the value is meaningless as a raw pointer

template<class T>
class off_ptr {
	std::ptrdiff_t off_ = 0;  // byte offset from arena_base(); 0 = null
	bool null_ = true;
	template<class> friend class off_ptr;

 public:
	using difference_type = std::ptrdiff_t;
	using value_type = std::remove_cv_t<T>;
	using element_type = T;
	using pointer = off_ptr;
	using reference = std::add_lvalue_reference_t<T>;
	using iterator_category = std::random_access_iterator_tag;
	template<class U> using rebind = off_ptr<U>;
	using default_allocator_type = std::allocator<value_type>;

	off_ptr() = default;
	off_ptr(std::nullptr_t) {}  // NOLINT null is the only implicit source
	struct from_raw_t {};
	off_ptr(from_raw_t, T* p) : off_(p ? reinterpret_cast<char const volatile*>(p) - arena_base() : 0), null_(p == nullptr) {}  // harness-only entry point
	template<class U, std::enable_if_t<std::is_convertible_v<U*, T*> && !std::is_same_v<U, T>, int> = 0>
	off_ptr(off_ptr<U> const& o) : off_(o.off_), null_(o.null_) {}  // NOLINT implicit: T -> T const, as for raw pointers
	template<class U, std::enable_if_t<!std::is_convertible_v<U*, T*>, int> = 0>
	explicit off_ptr(off_ptr<U> const& o) : off_(o.off_), null_(o.null_) {}  // explicit: reinterpretation (static/reinterpret casts of the library)

	T* raw() const { return null_ ? nullptr : reinterpret_cast<T*>(const_cast<char*>(arena_base()) + off_); }
	template<class U = T> static off_ptr pointer_to(U& r) { return off_ptr(from_raw_t{}, std::addressof(r)); }

	reference operator*() const { return *raw(); }
	T* operator->() const { return raw(); }
	reference operator[](difference_type n) const { return *(raw() + n); }
	explicit operator bool() const { return !null_; }

	off_ptr& operator+=(difference_type n) { off_ += n*static_cast<difference_type>(sizeof(T)); return *this; }
	off_ptr& operator-=(difference_type n) { off_ -= n*static_cast<difference_type>(sizeof(T)); return *this; }
	off_ptr& operator++() { return *this += 1; }
	off_ptr& operator--() { return *this -= 1; }
	off_ptr operator++(int) { auto t = *this; ++*this; return t; }
	off_ptr operator--(int) { auto t = *this; --*this; return t; }
	friend off_ptr operator+(off_ptr p, difference_type n) { p += n; return p; }
	friend off_ptr operator+(difference_type n, off_ptr p) { p += n; return p; }
	friend off_ptr operator-(off_ptr p, difference_type n) { p -= n; return p; }
	friend difference_type operator-(off_ptr const& a, off_ptr const& b) { return (a.off_ - b.off_)/static_cast<difference_type>(sizeof(T)); }
	friend bool operator==(off_ptr const& a, off_ptr const& b) { return a.null_ == b.null_ && (a.null_ || a.off_ == b.off_); }
	friend bool operator!=(off_ptr const& a, off_ptr const& b) { return !(a == b); }
	friend bool operator<(off_ptr const& a, off_ptr const& b) { return a.off_ < b.off_; }
	friend bool operator>(off_ptr const& a, off_ptr const& b) { return b < a; }
	friend bool operator<=(off_ptr const& a, off_ptr const& b) { return !(b < a); }
	friend bool operator>=(off_ptr const& a, off_ptr const& b) { return !(a < b); }
	friend bool operator==(off_ptr const& a, std::nullptr_t) { return a.null_; }
	friend bool operator!=(off_ptr const& a, std::nullptr_t) { return !a.null_; }
};

template<class T>
struct OffAlloc {
	using value_type = T;
	using pointer = off_ptr<T>;
	using const_pointer = off_ptr<T const>;
	using size_type = std::size_t;
	using difference_type = std::ptrdiff_t;
	template<class U> struct rebind { using other = OffAlloc<U>; };
	OffAlloc() = default;
	template<class U> OffAlloc(OffAlloc<U> const&) {}  // NOLINT
	pointer allocate(std::size_t n) { return pointer(typename pointer::from_raw_t{}, static_cast<T*>(::operator new(n*sizeof(T)))); }
	void deallocate(pointer p, std::size_t) noexcept { ::operator delete(p.raw()); }
	friend bool operator==(OffAlloc const&, OffAlloc const&) { return true; }
	friend bool operator!=(OffAlloc const&, OffAlloc const&) { return false; }
};

// ------------------------------------------------------------------------------------------------ chk_ptr
struct ChkBlocks {
	struct B { char* base; std::size_t bytes; bool live; };
	std::vector<B> blocks;  // id = index + 1
	long derefs = 0;
	int add(void* p, std::size_t bytes) { blocks.push_back(B{static_cast<char*>(p), bytes, true}); return static_cast<int>(blocks.size()); }
	void kill(int id) { if(id >= 1 && id <= static_cast<int>(blocks.size())) { blocks[static_cast<std::size_t>(id - 1)].live = false; } }
};
inline ChkBlocks& chk() { static ChkBlocks c; return c; }

template<class T>
class chk_ptr {
	int id_ = 0;              // 0 = null
	std::ptrdiff_t boff_ = 0; // byte offset inside the block
	template<class> friend class chk_ptr;
	template<class> friend struct ChkAlloc;

	T* checked(std::ptrdiff_t extra_elems, char const* what) const {
		++chk().derefs;
		if(id_ == 0) { fancy_error(std::string("dereference of a null checked pointer (") + what + ")"); return reinterpret_cast<T*>(dummy()); }
		auto const& b = chk().blocks[static_cast<std::size_t>(id_ - 1)];
		std::ptrdiff_t o = boff_ + extra_elems*static_cast<std::ptrdiff_t>(sizeof(T));
		if(!b.live) { fancy_error(std::string("dereference inside a released block (") + what + ")"); return reinterpret_cast<T*>(dummy()); }
		if(o < 0 || static_cast<std::size_t>(o) + sizeof(T) > b.bytes) { fancy_error(std::string("dereference outside the storage the array owns or was given: byte offset ") + std::to_string(o) + " of a block of " + std::to_string(b.bytes) + " bytes (" + what + ")"); return reinterpret_cast<T*>(dummy()); }
		return reinterpret_cast<T*>(b.base + o);
	}
	static char* dummy() { alignas(64) static char d[256]; return d; }

 public:
	using difference_type = std::ptrdiff_t;
	using value_type = std::remove_cv_t<T>;
	using element_type = T;
	using pointer = chk_ptr;
	using reference = std::add_lvalue_reference_t<T>;
	using iterator_category = std::random_access_iterator_tag;
	template<class U> using rebind = chk_ptr<U>;
	using default_allocator_type = std::allocator<value_type>;

	chk_ptr() = default;
	chk_ptr(std::nullptr_t) {}  // NOLINT
	struct from_block_t {};
	chk_ptr(from_block_t, int id, std::ptrdiff_t boff) : id_(id), boff_(boff) {}
	template<class U, std::enable_if_t<std::is_convertible_v<U*, T*> && !std::is_same_v<U, T>, int> = 0>
	chk_ptr(chk_ptr<U> const& o) : id_(o.id_), boff_(o.boff_) {}  // NOLINT
	template<class U, std::enable_if_t<!std::is_convertible_v<U*, T*>, int> = 0>
	explicit chk_ptr(chk_ptr<U> const& o) : id_(o.id_), boff_(o.boff_) {}

	// raw address without a bounds check: used by the harness only, to compare positions (never dereferenced through it)
	T* raw() const { if(id_ == 0) { return nullptr; } return reinterpret_cast<T*>(chk().blocks[static_cast<std::size_t>(id_ - 1)].base + boff_); }

	reference operator*() const { return *checked(0, "operator*"); }
	T* operator->() const { return checked(0, "operator->"); }
	reference operator[](difference_type n) const { return *checked(n, "operator[]"); }
	explicit operator bool() const { return id_ != 0; }

	chk_ptr& operator+=(difference_type n) { boff_ += n*static_cast<difference_type>(sizeof(T)); return *this; }
	chk_ptr& operator-=(difference_type n) { boff_ -= n*static_cast<difference_type>(sizeof(T)); return *this; }
	chk_ptr& operator++() { return *this += 1; }
	chk_ptr& operator--() { return *this -= 1; }
	chk_ptr operator++(int) { auto t = *this; ++*this; return t; }
	chk_ptr operator--(int) { auto t = *this; --*this; return t; }
	friend chk_ptr operator+(chk_ptr p, difference_type n) { p += n; return p; }
	friend chk_ptr operator+(difference_type n, chk_ptr p) { p += n; return p; }
	friend chk_ptr operator-(chk_ptr p, difference_type n) { p -= n; return p; }
	friend difference_type operator-(chk_ptr const& a, chk_ptr const& b) {
		if(a.id_ != b.id_) { fancy_error("difference of pointers into different blocks"); }
		return (a.boff_ - b.boff_)/static_cast<difference_type>(sizeof(T));
	}
	friend bool operator==(chk_ptr const& a, chk_ptr const& b) { return a.id_ == b.id_ && (a.id_ == 0 || a.boff_ == b.boff_); }
	friend bool operator!=(chk_ptr const& a, chk_ptr const& b) { return !(a == b); }
	friend bool operator<(chk_ptr const& a, chk_ptr const& b) { if(a.id_ != b.id_) { fancy_error("ordering of pointers into different blocks"); } return a.boff_ < b.boff_; }
	friend bool operator>(chk_ptr const& a, chk_ptr const& b) { return b < a; }
	friend bool operator<=(chk_ptr const& a, chk_ptr const& b) { return !(b < a); }
	friend bool operator>=(chk_ptr const& a, chk_ptr const& b) { return !(a < b); }
	friend bool operator==(chk_ptr const& a, std::nullptr_t) { return a.id_ == 0; }
	friend bool operator!=(chk_ptr const& a, std::nullptr_t) { return a.id_ != 0; }
	template<class U = T> static chk_ptr pointer_to(U& r) {  // find the block the object lives in
		auto* p = reinterpret_cast<char const*>(std::addressof(r));
		for(std::size_t i = chk().blocks.size(); i-- > 0;) { auto const& b = chk().blocks[i]; if(b.live && p >= b.base && p < b.base + b.bytes) { return chk_ptr(from_block_t{}, static_cast<int>(i + 1), p - b.base); } }
		fancy_error("pointer_to an object outside every known block"); return {};
	}
};

template<class T>
struct ChkAlloc {
	using value_type = T;
	using pointer = chk_ptr<T>;
	using const_pointer = chk_ptr<T const>;
	using size_type = std::size_t;
	using difference_type = std::ptrdiff_t;
	template<class U> struct rebind { using other = ChkAlloc<U>; };
	ChkAlloc() = default;
	template<class U> ChkAlloc(ChkAlloc<U> const&) {}  // NOLINT
	pointer allocate(std::size_t n) { void* p = ::operator new(n*sizeof(T)); return pointer(typename pointer::from_block_t{}, chk().add(p, n*sizeof(T)), 0); }
	void deallocate(pointer p, std::size_t n) noexcept {
		if(p.id_ == 0 || p.boff_ != 0) { fancy_error("deallocate of a pointer that is not the start of a block"); return; }
		auto& b = chk().blocks[static_cast<std::size_t>(p.id_ - 1)];
		if(!b.live) { fancy_error("double deallocate"); return; }
		if(b.bytes != n*sizeof(T)) { fancy_error("deallocate with a different size"); }
		b.live = false; ::operator delete(b.base);
	}
	friend bool operator==(ChkAlloc const&, ChkAlloc const&) { return true; }
	friend bool operator!=(ChkAlloc const&, ChkAlloc const&) { return false; }
};

template<class T> T* raw_of(T* p) { return p; }
template<class T> T* raw_of(off_ptr<T> const& p) { return p.raw(); }
template<class T> T* raw_of(chk_ptr<T> const& p) { return p.raw(); }

}  // namespace vp
